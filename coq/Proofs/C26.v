(* C26 — specification (from the property text) and proofs about Model.C26. *)
From Coq Require Import List String Bool NArith Lia Sorted.
From RQ Require Import Model.C26.
Import ListNotations.
Local Open Scope N_scope.

(* ------------------------------------------------------------------ ordered map facts *)

Fixpoint sorted (l : list item) : Prop :=
  match l with
  | [] => True
  | it :: r => Forall (fun x => fst it < fst x) r /\ sorted r
  end.

Definition above (i : N) (x : item) : bool := i <? fst x.      (* survives delete_range i *)
Definition atleast (k : N) (x : item) : bool := k <=? fst x.   (* at or above a cursor k *)

Lemma seek_filter k l : seek k l = hd_error (filter (atleast k) l).
Proof.
  induction l as [|a l IH]; cbn [seek filter hd_error]; [reflexivity|].
  unfold atleast at 1. destruct (k <=? fst a); cbn [hd_error]; auto.
Qed.

Lemma seek_some k l e : seek k l = Some e -> In e l /\ k <= fst e.
Proof.
  induction l as [|a l IH]; cbn [seek]; [discriminate|].
  destruct (N.leb_spec k (fst a)) as [Hle|Hgt]; intros H.
  - injection H as <-. split; [left; reflexivity | assumption].
  - destruct (IH H) as [Hi Hk]. split; [right; assumption | assumption].
Qed.

Lemma seek_min k l e x : sorted l -> seek k l = Some e -> In x l -> k <= fst x -> fst e <= fst x.
Proof.
  induction l as [|a l IH]; cbn [seek sorted]; [discriminate|].
  intros [Hall Hs] H Hin Hk.
  destruct (N.leb_spec k (fst a)) as [Hle|Hgt].
  - injection H as <-. destruct Hin as [<-|Hin]; [lia|].
    rewrite Forall_forall in Hall. specialize (Hall x Hin). lia.
  - destruct Hin as [<-|Hin]; [lia|]. apply IH; assumption.
Qed.

Lemma seek_none k l x : seek k l = None -> In x l -> fst x < k.
Proof.
  induction l as [|a l IH]; cbn [seek]; [intros _ []|].
  destruct (N.leb_spec k (fst a)) as [Hle|Hgt]; [discriminate|].
  intros H [<-|Hin]; [assumption | apply IH; assumption].
Qed.

Lemma put_above k v l : Forall (fun x => fst x < k) l -> put k v l = l ++ [(k, v)].
Proof.
  induction l as [|[k' v'] r IH]; intros H; cbn [put app]; [reflexivity|].
  inversion H as [|? ? Hk Hr]; subst. cbn [fst] in Hk.
  destruct (N.ltb_spec k k') as [?|_]; [lia|].
  destruct (N.eqb_spec k k') as [?|_]; [lia|].
  rewrite IH by assumption. reflexivity.
Qed.

Lemma sorted_snoc l k v : sorted l -> Forall (fun x => fst x < k) l -> sorted (l ++ [(k, v)]).
Proof.
  induction l as [|a l IH]; cbn [sorted app]; intros Hs Hb.
  - split; [constructor | exact I].
  - destruct Hs as [Hall Hs]. inversion Hb as [|? ? Ha Hb']; subst. split.
    + apply Forall_app. split; [assumption|]. constructor; [exact Ha | constructor].
    + apply IH; assumption.
Qed.

Lemma sorted_filter f l : sorted l -> sorted (filter f l).
Proof.
  induction l as [|a l IH]; cbn [sorted filter]; [auto|].
  intros [Hall Hs]. destruct (f a); cbn [sorted]; [|auto].
  split; [|auto]. rewrite Forall_forall in *. intros x Hx.
  apply filter_In in Hx. apply Hall. tauto.
Qed.

Lemma filter_all_true (f : item -> bool) l : (forall x, In x l -> f x = true) -> filter f l = l.
Proof.
  induction l as [|a l IH]; cbn [filter]; intros H; [reflexivity|].
  rewrite (H a (or_introl eq_refl)). f_equal. apply IH. intros x Hx. apply H. right. exact Hx.
Qed.

(* the collect-then-delete loop of DeleteRange removes exactly the keys <= idx *)
Lemma delete_loop_filter idx l : sorted l ->
  fold_left (fun b k => del_key k b) (collect idx l) l = filter (above idx) l.
Proof.
  induction l as [|a l IH]; cbn [collect fold_left filter sorted]; [reflexivity|].
  intros [Hall Hs]. unfold above at 1.
  destruct (N.leb_spec (fst a) idx) as [Hle|Hgt].
  - destruct (N.ltb_spec idx (fst a)) as [?|_]; [lia|].
    cbn [fold_left del_key]. rewrite N.eqb_refl. apply IH. exact Hs.
  - destruct (N.ltb_spec idx (fst a)) as [_|?]; [|lia].
    cbn [fold_left]. f_equal. symmetry. apply filter_all_true.
    intros x Hx. rewrite Forall_forall in Hall. specialize (Hall x Hx).
    unfold above. apply N.ltb_lt. lia.
Qed.

(* the cached head stays the right one across a delete that does not reach it *)
Lemma seek_after_delete idx from from' l e :
  seek from l = Some e -> idx < fst e -> from <= from' -> from' <= fst e ->
  seek from' (filter (above idx) l) = Some e.
Proof.
  induction l as [|a l IH]; cbn [seek filter]; [discriminate|].
  intros H Hi Hf Hf'. unfold above at 1.
  destruct (N.leb_spec from (fst a)) as [Hle|Hgt].
  - injection H as <-. destruct (N.ltb_spec idx (fst a)) as [_|?]; [|lia].
    cbn [seek]. destruct (N.leb_spec from' (fst a)) as [_|?]; [reflexivity|lia].
  - destruct (N.ltb_spec idx (fst a)) as [_|_].
    + cbn [seek]. destruct (N.leb_spec from' (fst a)) as [?|_]; [lia|]. apply IH; assumption.
    + apply IH; assumption.
Qed.

Lemma seek_snoc from l e k v : seek from l = Some e -> seek from (l ++ [(k, v)]) = Some e.
Proof.
  induction l as [|a l IH]; cbn [seek app]; [discriminate|].
  destruct (from <=? fst a); auto.
Qed.

(* emitting e moves the cursor just past it: what remains owed is the tail *)
Lemma filter_tail k l e t : sorted l ->
  filter (atleast k) l = e :: t -> t = filter (atleast (fst e + 1)) l.
Proof.
  induction l as [|a l IH]; cbn [filter sorted]; [discriminate|].
  intros [Hall Hs]. unfold atleast at 1.
  destruct (N.leb_spec k (fst a)) as [Hle|Hgt]; intros H.
  - injection H as <- <-. unfold atleast at 2.
    destruct (N.leb_spec (fst a + 1) (fst a)) as [?|_]; [lia|].
    apply filter_ext_in. intros x Hx. rewrite Forall_forall in Hall. specialize (Hall x Hx).
    unfold atleast. destruct (N.leb_spec k (fst x)), (N.leb_spec (fst a + 1) (fst x)); auto; lia.
  - assert (He : k <= fst e).
    { assert (Hin : In e (filter (atleast k) l)) by (rewrite H; left; reflexivity).
      apply filter_In in Hin. destruct Hin as [_ Hin]. unfold atleast in Hin. apply N.leb_le in Hin. exact Hin. }
    unfold atleast at 1. destruct (N.leb_spec (fst e + 1) (fst a)) as [?|_]; [lia|].
    apply IH; assumption.
Qed.

(* ------------------------------------------------------------------ the invariant *)

Record inv (s : state) : Prop := {
  inv_sorted : sorted (bucket (P s));
  inv_bound : Forall (fun x => fst x <= max_key (P s)) (bucket (P s));
  inv_high : highest (V s) = max_key (P s);
  inv_head : nextEv (V s) = seek (nextFrom (V s)) (bucket (P s)) }.

Lemma inv_open p : sorted (bucket p) -> Forall (fun x => fst x <= max_key p) (bucket p) -> inv (open p).
Proof. intros Hs Hb. constructor; cbn; auto. Qed.

Lemma inv_fresh : inv (open fresh).
Proof. apply inv_open; cbn; auto. Qed.

(* what an accepted / ignored enqueue does, in closed form *)
Lemma enqueue_ignored s k d : k <= highest (V s) -> enqueue s k d = s.
Proof. intros H. unfold enqueue. destruct (N.leb_spec k (highest (V s))); [reflexivity|lia]. Qed.

Lemma enqueue_accepted s k d : inv s -> highest (V s) < k ->
  P (enqueue s k d) = {| bucket := bucket (P s) ++ [(k, d)]; max_key := k |}
  /\ highest (V (enqueue s k d)) = k
  /\ nextFrom (V (enqueue s k d)) = nextFrom (V s)
  /\ nextEv (V (enqueue s k d)) = load_head (bucket (P s) ++ [(k, d)]) (nextEv (V s)) (nextFrom (V s)).
Proof.
  intros [Hs Hb Hh Hd] Hk. unfold enqueue.
  destruct (N.leb_spec k (highest (V s))) as [?|_]; [lia|].
  destruct (N.ltb_spec (highest (V s)) k) as [_|?]; [|lia].
  assert (Hput : put k d (bucket (P s)) = bucket (P s) ++ [(k, d)]).
  { apply put_above. rewrite Forall_forall in *. intros x Hx. specialize (Hb x Hx). lia. }
  cbn [P V highest nextFrom nextEv]. rewrite Hput. auto.
Qed.

Lemma delete_closed s i : inv s ->
  bucket (P (delete_range s i)) = filter (above i) (bucket (P s))
  /\ max_key (P (delete_range s i)) = max_key (P s)
  /\ highest (V (delete_range s i)) = highest (V s)
  /\ nextFrom (V (delete_range s i)) =
       (if negb (nextFrom (V s) =? 0) && (nextFrom (V s) <=? i) then i + 1 else nextFrom (V s)).
Proof.
  intros [Hs _ _ _]. unfold delete_range. cbn [P V bucket max_key highest nextFrom].
  rewrite delete_loop_filter by assumption. auto.
Qed.

Lemma inv_enqueue s k d : inv s -> inv (enqueue s k d).
Proof.
  intros Hi. destruct (N.leb_spec k (highest (V s))) as [Hle|Hgt].
  - rewrite enqueue_ignored by assumption. exact Hi.
  - destruct (enqueue_accepted s k d Hi Hgt) as (HP & Hh & Hf & He).
    destruct Hi as [Hs Hb Hhi Hd].
    assert (Hlt : Forall (fun x => fst x < k) (bucket (P s))).
    { rewrite Forall_forall in *. intros x Hx. specialize (Hb x Hx). lia. }
    constructor; rewrite ?HP, ?Hh, ?Hf, ?He; cbn [bucket max_key].
    + apply sorted_snoc; assumption.
    + apply Forall_app. split.
      * rewrite Forall_forall in *. intros x Hx. specialize (Hlt x Hx). lia.
      * constructor; [cbn; lia | constructor].
    + reflexivity.
    + unfold load_head. destruct (nextEv (V s)) as [e|] eqn:E; [|reflexivity].
      symmetry. apply seek_snoc. rewrite <- Hd. reflexivity.
Qed.

Lemma inv_delete s i : inv s -> inv (delete_range s i).
Proof.
  intros Hi. destruct (delete_closed s i Hi) as (Hb' & Hm & Hh & Hf).
  destruct Hi as [Hs Hb Hhi Hd].
  constructor; rewrite ?Hb', ?Hm, ?Hh.
  - apply sorted_filter. assumption.
  - rewrite Forall_forall in *. intros x Hx. apply filter_In in Hx. apply Hb. tauto.
  - assumption.
  - rewrite Hf. unfold delete_range. cbn [V nextEv P bucket].
    rewrite delete_loop_filter by assumption.
    set (from' := if negb (nextFrom (V s) =? 0) && (nextFrom (V s) <=? i) then i + 1 else nextFrom (V s)).
    destruct (nextEv (V s)) as [e|] eqn:E; [|reflexivity].
    destruct (N.leb_spec (fst e) i) as [Hle|Hgt]; [reflexivity|].
    cbn [load_head]. symmetry.
    symmetry in Hd. destruct (seek_some _ _ _ Hd) as [_ Hfe].
    apply (seek_after_delete i (nextFrom (V s))); try assumption.
    + subst from'. destruct (negb (nextFrom (V s) =? 0) && (nextFrom (V s) <=? i)) eqn:Ec; [|lia].
      apply andb_true_iff in Ec. destruct Ec as [_ Ec]. apply N.leb_le in Ec. lia.
    + subst from'. destruct (negb (nextFrom (V s) =? 0) && (nextFrom (V s) <=? i)); lia.
Qed.

Lemma inv_take s : inv s -> inv (fst (take s)).
Proof.
  intros Hi. unfold take. destruct (nextEv (V s)) as [e|]; cbn [fst]; [|exact Hi].
  destruct Hi as [Hs Hb Hhi Hd]. constructor; cbn; auto.
Qed.

Lemma inv_reopen s : inv s -> inv (reopen s).
Proof. intros [Hs Hb _ _]. apply inv_open; assumption. Qed.

Lemma inv_step s o : inv s -> inv (fst (step s o)).
Proof.
  intros Hi. destruct o as [k d|i| | | |k d b|i b]; cbn [step fst].
  - apply inv_enqueue, Hi.
  - apply inv_delete, Hi.
  - apply inv_take, Hi.
  - apply inv_reopen, Hi.
  - apply inv_reopen, Hi.
  - apply inv_reopen. destruct b; [apply inv_enqueue|]; exact Hi.
  - apply inv_reopen. destruct b; [apply inv_delete|]; exact Hi.
Qed.

Lemma run_cons s o r :
  run s (o :: r) = (fst (run (fst (step s o)) r), observe (fst (step s o)) (snd (step s o)) :: snd (run (fst (step s o)) r)).
Proof. cbn [run]. destruct (step s o) as [s1 ev]. cbn [fst snd]. destruct (run s1 r). reflexivity. Qed.

Lemma run_app s a b :
  run s (a ++ b) = (fst (run (fst (run s a)) b), snd (run s a) ++ snd (run (fst (run s a)) b)).
Proof.
  revert s. induction a as [|o a IH]; intros s.
  - cbn [app run fst snd]. destruct (run s b); reflexivity.
  - cbn [app]. rewrite !run_cons. cbn [fst snd]. rewrite IH. reflexivity.
Qed.

Lemma inv_run s ops : inv s -> inv (fst (run s ops)).
Proof.
  revert s. induction ops as [|o r IH]; intros s Hi; [exact Hi|].
  rewrite run_cons. cbn [fst]. apply IH, inv_step, Hi.
Qed.

(* the state after a history on a new queue file *)
Definition final (ops : list op) : state := fst (run (open fresh) ops).
Definition outputs (ops : list op) : list obs := snd (run (open fresh) ops).

Lemma inv_final ops : inv (final ops).
Proof. apply inv_run, inv_fresh. Qed.

(* ------------------------------------------------------------------ persistent content *)

(* how each operation changes the persistent part (closed form, under the invariant) *)
Definition p_enq (p : pstate) (k : N) (d : string) : pstate :=
  if k <=? max_key p then p else {| bucket := bucket p ++ [(k, d)]; max_key := k |}.
Definition p_del (p : pstate) (i : N) : pstate :=
  {| bucket := filter (above i) (bucket p); max_key := max_key p |}.
Definition p_step (p : pstate) (o : op) : pstate :=
  match o with
  | Enq k d | KillEnq k d true => p_enq p k d
  | Del i | KillDel i true => p_del p i
  | _ => p
  end.

Lemma P_enqueue s k d : inv s -> P (enqueue s k d) = p_enq (P s) k d.
Proof.
  intros Hi. unfold p_enq. rewrite <- (inv_high s Hi).
  destruct (N.leb_spec k (highest (V s))) as [Hle|Hgt].
  - rewrite enqueue_ignored by assumption. reflexivity.
  - apply (enqueue_accepted s k d Hi Hgt).
Qed.

Lemma P_delete s i : inv s -> P (delete_range s i) = p_del (P s) i.
Proof.
  intros Hi. destruct (delete_closed s i Hi) as (Hb & Hm & _).
  unfold p_del. destruct (P (delete_range s i)) as [b m]. cbn in *. subst. reflexivity.
Qed.

Lemma P_step s o : inv s -> P (fst (step s o)) = p_step (P s) o.
Proof.
  intros Hi. destruct o as [k d|i| | | |k d b|i b]; cbn [step fst p_step].
  - apply P_enqueue, Hi.
  - apply P_delete, Hi.
  - unfold take. destruct (nextEv (V s)); reflexivity.
  - reflexivity.
  - reflexivity.
  - unfold reopen, open. cbn [P]. destruct b; [apply P_enqueue, Hi | reflexivity].
  - unfold reopen, open. cbn [P]. destruct b; [apply P_delete, Hi | reflexivity].
Qed.

Lemma P_run s ops : inv s -> P (fst (run s ops)) = fold_left p_step ops (P s).
Proof.
  revert s. induction ops as [|o r IH]; intros s Hi; [reflexivity|].
  rewrite run_cons. cbn [fst fold_left]. rewrite IH by (apply inv_step, Hi).
  rewrite P_step by assumption. reflexivity.
Qed.

(* --- the specification of the content, from the property text: a set of items and the
       highest index ever stored; reopen and kill do not appear in it at all --- *)
Definition spec_step (st : list item * N) (o : op) : list item * N :=
  match o with
  | Enq k d | KillEnq k d true =>
      if k <=? snd st then st else ((k, d) :: fst st, k)
  | Del i | KillDel i true => (filter (fun x => i <? fst x) (fst st), snd st)
  | _ => st
  end.
Definition spec_store (ops : list op) : list item * N := fold_left spec_step ops ([], 0).

Definition same_set (a b : list item) : Prop := forall x, In x a <-> In x b.

Lemma p_step_spec p st o : same_set (bucket p) (fst st) -> max_key p = snd st ->
  same_set (bucket (p_step p o)) (fst (spec_step st o)) /\ max_key (p_step p o) = snd (spec_step st o).
Proof.
  intros Hset Hm.
  assert (Henq : forall k d, same_set (bucket (p_enq p k d)) (fst (if k <=? snd st then st else ((k, d) :: fst st, k)))
                             /\ max_key (p_enq p k d) = snd (if k <=? snd st then st else ((k, d) :: fst st, k))).
  { intros k d. unfold p_enq. rewrite Hm. destruct (k <=? snd st); [auto|]. cbn [bucket max_key fst snd]. split; [|reflexivity].
    intros x. rewrite in_app_iff. cbn [In]. rewrite (Hset x). tauto. }
  assert (Hdel : forall i, same_set (bucket (p_del p i)) (filter (fun x => i <? fst x) (fst st)) /\ max_key (p_del p i) = snd st).
  { intros i. unfold p_del. cbn [bucket max_key]. split; [|assumption].
    intros x. rewrite !filter_In. unfold above. rewrite (Hset x). tauto. }
  destruct o as [k d|i| | | |k d b|i b]; unfold p_step, spec_step.
  - apply Henq.
  - apply Hdel.
  - auto.
  - auto.
  - auto.
  - destruct b; [apply Henq | auto].
  - destruct b; [apply Hdel | auto].
Qed.

Lemma content_refines ops :
  same_set (bucket (P (final ops))) (fst (spec_store ops))
  /\ max_key (P (final ops)) = snd (spec_store ops)
  /\ highest (V (final ops)) = snd (spec_store ops).
Proof.
  assert (H : same_set (bucket (P (final ops))) (fst (spec_store ops)) /\ max_key (P (final ops)) = snd (spec_store ops)).
  { unfold final, spec_store. rewrite P_run by apply inv_fresh. cbn [open P].
    generalize fresh ([] : list item, 0) (conj (fun x : item => iff_refl (In x [])) (eq_refl 0) : same_set (bucket fresh) (fst ([] : list item, 0)) /\ max_key fresh = snd ([] : list item, 0)).
    induction ops as [|o r IH]; intros p st [Hs Hm]; cbn [fold_left]; [auto|].
    apply IH. apply p_step_spec; assumption. }
  destruct H as [H1 H2]. split; [exact H1|]. split; [exact H2|].
  rewrite (inv_high _ (inv_final ops)). exact H2.
Qed.

(* --- direct statements over histories --- *)

(* the highest index of any enqueue that reached the store *)
Definition enq_idx (o : op) : N :=
  match o with Enq k _ | KillEnq k _ true => k | _ => 0 end.
Fixpoint max_enq (ops : list op) : N :=
  match ops with [] => 0 | o :: r => N.max (enq_idx o) (max_enq r) end.

Lemma max_key_p_step p o : max_key (p_step p o) = N.max (max_key p) (enq_idx o).
Proof.
  assert (He : forall k d, max_key (p_enq p k d) = N.max (max_key p) k).
  { intros k d. unfold p_enq. destruct (N.leb_spec k (max_key p)); cbn [max_key]; lia. }
  destruct o as [k d|i| | | |k d b|i b]; cbn [p_step enq_idx]; try (cbn [p_del max_key]; lia); auto.
  - destruct b; [auto | lia].
  - destruct b; cbn [p_del max_key]; lia.
Qed.

Lemma max_key_fold ops p : max_key (fold_left p_step ops p) = N.max (max_key p) (max_enq ops).
Proof.
  revert p. induction ops as [|o r IH]; intros p; cbn [fold_left max_enq]; [lia|].
  rewrite IH, max_key_p_step. lia.
Qed.

Lemma highest_survives ops :
  max_key (P (final ops)) = max_enq ops /\ highest (V (final ops)) = max_enq ops.
Proof.
  assert (H : max_key (P (final ops)) = max_enq ops).
  { unfold final. rewrite P_run by apply inv_fresh. rewrite max_key_fold. cbn. lia. }
  split; [exact H|]. rewrite (inv_high _ (inv_final ops)). exact H.
Qed.

Lemma final_app a b : final (a ++ b) = fst (run (final a) b).
Proof. unfold final. rewrite run_app. reflexivity. Qed.

Lemma stale_enqueue_noop pre k d : k <= max_enq pre -> final (pre ++ [Enq k d]) = final pre.
Proof.
  intros H. rewrite final_app. cbn [run step fst].
  apply enqueue_ignored. destruct (highest_survives pre) as [_ ->]. exact H.
Qed.

Lemma delete_exact pre i :
  bucket (P (final (pre ++ [Del i]))) = filter (fun x => i <? fst x) (bucket (P (final pre)))
  /\ max_key (P (final (pre ++ [Del i]))) = max_key (P (final pre)).
Proof.
  rewrite final_app. cbn [run step fst].
  destruct (delete_closed (final pre) i (inv_final pre)) as (Hb & Hm & _). split; assumption.
Qed.

Definition deletes_at_least (k : N) (o : op) : Prop :=
  match o with Del i | KillDel i true => k <= i | _ => False end.

Lemma survive_fold x post p :
  In x (bucket p) -> (forall o, In o post -> ~ deletes_at_least (fst x) o) ->
  In x (bucket (fold_left p_step post p)).
Proof.
  revert p. induction post as [|o r IH]; intros p Hin Hno; cbn [fold_left]; [exact Hin|].
  apply IH; [|intros o' Ho'; apply Hno; right; exact Ho'].
  assert (Hd : forall i, ~ (fst x <= i) -> In x (bucket (p_del p i))).
  { intros i Hi. unfold p_del. cbn [bucket]. apply filter_In. split; [exact Hin|]. unfold above. apply N.ltb_lt. lia. }
  assert (He : forall k d, In x (bucket (p_enq p k d))).
  { intros k d. unfold p_enq. destruct (k <=? max_key p); [exact Hin|]. cbn [bucket]. apply in_or_app. left. exact Hin. }
  specialize (Hno o (or_introl eq_refl)).
  destruct o as [k d|i| | | |k d b|i b]; cbn [p_step deletes_at_least] in *; auto.
  - destruct b; auto.
  - destruct b; auto.
Qed.

Lemma acknowledged_not_lost pre k d post :
  max_enq pre < k ->
  (forall o, In o post -> ~ deletes_at_least k o) ->
  In (k, d) (bucket (P (final (pre ++ Enq k d :: post)))).
Proof.
  intros Hk Hno. unfold final. rewrite P_run by apply inv_fresh.
  rewrite fold_left_app. cbn [fold_left].
  apply survive_fold; [|exact Hno].
  cbn [p_step]. unfold p_enq.
  rewrite max_key_fold. cbn [open P fresh max_key].
  destruct (N.leb_spec k (N.max 0 (max_enq pre))) as [?|_]; [lia|].
  cbn [bucket]. apply in_or_app. right. left. reflexivity.
Qed.

(* ------------------------------------------------------------------ emission *)

(* ghost bookkeeping over a history and the answers it produced: what was emitted, and which
   delete_range calls were made, since the queue was last opened *)
Record ghost := { g_out : list N; g_dels : list N }.
Definition g0 : ghost := {| g_out := []; g_dels := [] |}.
Definition ghost_step (g : ghost) (o : op) (ev : option item) : ghost :=
  match o with
  | Take => match ev with
            | Some e => {| g_out := g_out g ++ [fst e]; g_dels := g_dels g |}
            | None => g
            end
  | Del i => {| g_out := g_out g; g_dels := i :: g_dels g |}
  | Enq _ _ => g
  | _ => g0
  end.
Fixpoint ghost_of (g : ghost) (ops : list op) (os : list obs) : ghost :=
  match ops, os with
  | o :: r, ob :: os' => ghost_of (ghost_step g o (o_ev ob)) r os'
  | _, _ => g
  end.

Definition nf (s : state) := nextFrom (V s).

Record ginv (s : state) (g : ghost) : Prop := {
  gi_below : Forall (fun j => j < nf s) (g_out g);
  gi_sorted : StronglySorted N.lt (g_out g);
  gi_owed : forall x, In x (bucket (P s)) ->
            nf s <= fst x \/ In (fst x) (g_out g) \/ exists i, In i (g_dels g) /\ fst x <= i;
  gi_cursor : nf s <= max_key (P s) + 1 \/ exists i, In i (g_dels g) /\ nf s <= i + 1 }.

Lemma ginv_open p : ginv (open p) g0.
Proof.
  constructor; cbn.
  - constructor.
  - constructor.
  - intros x _. left. unfold nf. cbn. lia.
  - left. unfold nf. cbn. lia.
Qed.

Lemma sorted_lt_snoc l x : StronglySorted N.lt l -> Forall (fun j => j < x) l -> StronglySorted N.lt (l ++ [x]).
Proof.
  induction l as [|a l IH]; cbn [app]; intros Hs Hb.
  - constructor; constructor.
  - inversion Hs as [|? ? Hs' Hall]; subst. inversion Hb as [|? ? Ha Hb']; subst.
    constructor; [apply IH; assumption|].
    apply Forall_app. split; [assumption | constructor; [assumption | constructor]].
Qed.

Lemma ginv_step s g o : inv s -> ginv s g ->
  ginv (fst (step s o)) (ghost_step g o (snd (step s o))).
Proof.
  intros Hi Hg.
  assert (Hre : forall s', ginv (reopen s') g0) by (intros s'; apply ginv_open).
  destruct o as [k d|i| | | |k d b|i b]; cbn [step fst snd ghost_step]; auto.
  - (* Enq *)
    destruct (N.leb_spec k (highest (V s))) as [Hle|Hgt].
    + rewrite enqueue_ignored by assumption. exact Hg.
    + destruct (enqueue_accepted s k d Hi Hgt) as (HP & Hh & Hf & He).
      destruct Hg as [G1 G2 G3 G4]. pose proof (inv_high s Hi) as Hhm.
      constructor; unfold nf in *; rewrite ?HP, ?Hf; cbn [bucket max_key]; auto.
      * intros x Hx. apply in_app_or in Hx. destruct Hx as [Hx|[<-|[]]]; [auto|]. cbn [fst].
        destruct G4 as [G4|(i & Hi1 & Hi2)]; [left; lia|].
        destruct (N.le_gt_cases (nextFrom (V s)) k); [left; assumption|].
        right. right. exists i. split; [assumption | lia].
      * destruct G4 as [G4|G4]; [left; lia | right; exact G4].
  - (* Del *)
    destruct (delete_closed s i Hi) as (Hb & Hm & Hh & Hf).
    destruct Hg as [G1 G2 G3 G4].
    assert (Hmono : nf s <= nf (delete_range s i)).
    { unfold nf. rewrite Hf. destruct (negb (nextFrom (V s) =? 0) && (nextFrom (V s) <=? i)) eqn:Ec; [|lia].
      apply andb_true_iff in Ec. destruct Ec as [_ Ec]. apply N.leb_le in Ec. lia. }
    constructor; cbn [g_out g_dels].
    + rewrite Forall_forall in *. intros j Hj. specialize (G1 j Hj). lia.
    + assumption.
    + intros x Hx. rewrite Hb in Hx. apply filter_In in Hx. destruct Hx as [Hx Hab].
      unfold above in Hab. apply N.ltb_lt in Hab.
      destruct (G3 x Hx) as [G|[G|(i' & Hi1 & Hi2)]].
      * left. unfold nf in *. rewrite Hf.
        destruct (negb (nextFrom (V s) =? 0) && (nextFrom (V s) <=? i)); lia.
      * right. left. assumption.
      * right. right. exists i'. split; [right; assumption | assumption].
    + unfold nf in *. rewrite Hf, Hm.
      destruct (negb (nextFrom (V s) =? 0) && (nextFrom (V s) <=? i)).
      * right. exists i. split; [left; reflexivity | lia].
      * destruct G4 as [G4|(i' & Hi1 & Hi2)]; [left; assumption | right; exists i'; split; [right; assumption | assumption]].
  - (* Take *)
    unfold take. destruct (nextEv (V s)) as [e|] eqn:E; cbn [fst snd]; [|exact Hg].
    destruct Hg as [G1 G2 G3 G4]. pose proof (inv_head s Hi) as Hd. rewrite E in Hd. symmetry in Hd.
    destruct (seek_some _ _ _ Hd) as [Hin Hge].
    constructor; unfold nf in *; cbn [V P nextFrom g_out g_dels].
    + apply Forall_app. split.
      * rewrite Forall_forall in *. intros j Hj. specialize (G1 j Hj). lia.
      * constructor; [lia | constructor].
    + apply sorted_lt_snoc; [assumption|].
      rewrite Forall_forall in *. intros j Hj. specialize (G1 j Hj). lia.
    + intros x Hx. destruct (G3 x Hx) as [G|[G|G]].
      * destruct (N.le_gt_cases (fst e + 1) (fst x)); [left; assumption|].
        right. left. apply in_or_app. right. left.
        pose proof (seek_min _ _ _ x (inv_sorted s Hi) Hd Hx G). lia.
      * right. left. apply in_or_app. left. assumption.
      * right. right. assumption.
    + left. pose proof (inv_bound s Hi) as Hb. rewrite Forall_forall in Hb. specialize (Hb e Hin). lia.
Qed.

Lemma ghost_run s g ops : inv s -> ginv s g ->
  ginv (fst (run s ops)) (ghost_of g ops (snd (run s ops))).
Proof.
  revert s g. induction ops as [|o r IH]; intros s g Hi Hg; [exact Hg|].
  rewrite run_cons. cbn [fst snd ghost_of o_ev observe].
  apply IH; [apply inv_step, Hi | apply ginv_step; assumption].
Qed.

(* what was emitted / which delete_range calls were made since the last (re)open *)
Definition emitted_this_open (ops : list op) : list N := g_out (ghost_of g0 ops (outputs ops)).
Definition deletes_this_open (ops : list op) : list N := g_dels (ghost_of g0 ops (outputs ops)).

Lemma ginv_final ops : ginv (final ops) (ghost_of g0 ops (outputs ops)).
Proof. apply ghost_run; [apply inv_fresh | apply ginv_open]. Qed.

Lemma emission_increasing ops : StronglySorted N.lt (emitted_this_open ops).
Proof. apply (gi_sorted _ _ (ginv_final ops)). Qed.

Lemma emission_owed ops x :
  In x (bucket (P (final ops))) ->
  nextFrom (V (final ops)) <= fst x
  \/ In (fst x) (emitted_this_open ops)
  \/ exists i, In i (deletes_this_open ops) /\ fst x <= i.
Proof. apply (gi_owed _ _ (ginv_final ops)). Qed.

(* what the next receive from C gives *)
Lemma take_least ops :
  match snd (take (final ops)) with
  | Some e => In e (bucket (P (final ops))) /\ nextFrom (V (final ops)) <= fst e
              /\ (forall x, In x (bucket (P (final ops))) -> nextFrom (V (final ops)) <= fst x -> fst e <= fst x)
              /\ Forall (fun j => j < fst e) (emitted_this_open ops)
  | None => forall x, In x (bucket (P (final ops))) -> fst x < nextFrom (V (final ops))
  end.
Proof.
  pose proof (inv_final ops) as Hi. pose proof (inv_head _ Hi) as Hd.
  unfold take. destruct (nextEv (V (final ops))) as [e|] eqn:E; cbn [snd]; symmetry in Hd.
  - destruct (seek_some _ _ _ Hd) as [Hin Hge]. split; [assumption|]. split; [assumption|]. split.
    + intros x Hx Hk. apply (seek_min _ _ _ x (inv_sorted _ Hi) Hd Hx Hk).
    + pose proof (gi_below _ _ (ginv_final ops)) as G. unfold nf in G.
      rewrite Forall_forall in *. intros j Hj. specialize (G j Hj). unfold emitted_this_open in Hj. lia.
  - intros x Hx. apply (seek_none _ _ _ Hd Hx).
Qed.

(* a consumer that keeps receiving gets everything at or above the cursor, in order *)
Fixpoint events (os : list obs) : list item :=
  match os with
  | [] => []
  | ob :: r => match o_ev ob with Some e => e :: events r | None => events r end
  end.

Lemma events_take s r :
  events (snd (run s (Take :: r))) =
  match snd (take s) with
  | Some e => e :: events (snd (run (fst (take s)) r))
  | None => events (snd (run (fst (take s)) r))
  end.
Proof. rewrite run_cons. cbn [snd events o_ev observe step]. reflexivity. Qed.

Lemma drain_from s n : inv s ->
  events (snd (run s (repeat Take n))) = firstn n (filter (atleast (nextFrom (V s))) (bucket (P s))).
Proof.
  revert s. induction n as [|n IH]; intros s Hi; [reflexivity|].
  cbn [repeat]. rewrite events_take.
  pose proof (inv_head s Hi) as Hd. rewrite seek_filter in Hd.
  pose proof (inv_take s Hi) as Hi'. rewrite (IH _ Hi').
  unfold take. destruct (nextEv (V s)) as [e|] eqn:E; cbn [snd fst V P nextFrom].
  - destruct (filter (atleast (nextFrom (V s))) (bucket (P s))) as [|e' t] eqn:F; [discriminate|].
    cbn [hd_error] in Hd. injection Hd as <-. cbn [firstn]. f_equal. f_equal.
    symmetry. apply (filter_tail _ _ _ _ (inv_sorted s Hi) F).
  - destruct (filter (atleast (nextFrom (V s))) (bucket (P s))) as [|e' t] eqn:F; [|discriminate].
    destruct n; reflexivity.
Qed.

Lemma drain_after_reopen ops n : (List.length (bucket (P (final ops))) <= n)%nat ->
  events (snd (run (reopen (final ops)) (repeat Take n))) = bucket (P (final ops)).
Proof.
  intros Hn. rewrite drain_from by (apply inv_reopen, inv_final).
  cbn [reopen open V P nextFrom].
  rewrite filter_all_true by (intros x _; unfold atleast; apply N.leb_le; lia).
  apply firstn_all2. exact Hn.
Qed.

Lemma filter_len (f : item -> bool) l : (List.length (filter f l) <= List.length l)%nat.
Proof. induction l as [|a l IH]; cbn [filter List.length]; [lia|]. destruct (f a); cbn [List.length]; lia. Qed.

Lemma drain_owed ops n : (List.length (bucket (P (final ops))) <= n)%nat ->
  events (snd (run (final ops) (repeat Take n))) = filter (atleast (nextFrom (V (final ops)))) (bucket (P (final ops))).
Proof.
  intros Hn. rewrite drain_from by apply inv_final.
  apply firstn_all2. etransitivity; [apply filter_len | exact Hn].
Qed.

(* ------------------------------------------------------------------ concrete instances *)
Local Open Scope string_scope.

(* index 4 is stale; delete_range 9 is above the highest index (5) after an emission, so the
   cursor jumps to 10 and index 7 is stored below it: offered only after the reopen *)
Definition ex_ops : list op :=
  [Enq 3 "a"; Enq 5 "b"; Take; Enq 4 "x"; Del 9; Enq 7 "c"; Take; Kill; Take; KillEnq 8 "d" true; Take; Take].

Example ex_events : events (outputs ex_ops) = [(3, "a"); (7, "c"); (7, "c"); (8, "d")].
Proof. vm_compute. reflexivity. Qed.
Example ex_content : bucket (P (final ex_ops)) = [(7, "c"); (8, "d")] /\ fst (spec_store ex_ops) = [(8, "d"); (7, "c")].
Proof. vm_compute. auto. Qed.
Example ex_highest : max_enq ex_ops = 8 /\ o_high (last (outputs ex_ops) (observe (open fresh) None)) = 8.
Proof. vm_compute. auto. Qed.
Example ex_not_lost : In (7, "c") (bucket (P (final ([Enq 3 "a"; Enq 5 "b"; Take; Enq 4 "x"; Del 9] ++ Enq 7 "c" :: [Take; Kill; Take; Del 6])))).
Proof. apply acknowledged_not_lost; [vm_compute; reflexivity|]. cbn. intros o [<-|[<-|[<-|[<-|[]]]]]; cbn; lia. Qed.
Example ex_stale : final ([Enq 3 "a"; Enq 5 "b"; Take] ++ [Enq 4 "x"]) = final [Enq 3 "a"; Enq 5 "b"; Take].
Proof. apply stale_enqueue_noop. vm_compute. discriminate. Qed.
Example ex_delete : bucket (P (final ([Enq 3 "a"; Enq 5 "b"; Enq 6 "c"] ++ [Del 5]))) = [(6, "c")].
Proof. vm_compute. reflexivity. Qed.
Example ex_increasing : emitted_this_open [Enq 3 "a"; Enq 5 "b"; Take; Del 3; Take; Enq 9 "z"; Take] = [3; 5; 9]%N.
Proof. vm_compute. reflexivity. Qed.
(* the documented cursor behaviour: 7 is stored, below the cursor (10), not emitted, but a delete_range 9 >= 7 was made in this open *)
Example ex_owed_quirk :
  let h := [Enq 3 "a"; Enq 5 "b"; Take; Del 9; Enq 7 "c"] in
  bucket (P (final h)) = [(7, "c")] /\ nextFrom (V (final h)) = 10 /\ snd (take (final h)) = None
  /\ emitted_this_open h = [3]%N /\ deletes_this_open h = [9]%N.
Proof. vm_compute. auto 6. Qed.
Example ex_drain : events (snd (run (reopen (final ex_ops)) (repeat Take 3))) = [(7, "c"); (8, "d")].
Proof. vm_compute. reflexivity. Qed.
