(* C05_PageDB — pages, WAL frames and SQLite's checkpoint as pure functions (definitions only).
   Shared by C05 (compaction) and C06 (incremental segments).  Proofs live in Proofs/C05.v. *)
From Coq Require Import List NArith Bool.
Import ListNotations.
Local Open Scope N_scope.

(* A WAL frame: page number, commit field (0 = not a commit frame, otherwise the database
   size in pages after the transaction), and an identifier of the page image it carries. *)
Record frame := { pg : N; cm : N; ct : N }.

Definition is_commit (f : frame) : bool := negb (N.eqb (cm f) 0).

(* committed part of a frame list: everything up to and including the last commit frame *)
Fixpoint committed (w : list frame) : list frame :=
  match w with
  | [] => []
  | f :: r =>
      let c := committed r in
      match c with
      | [] => if is_commit f then [f] else []
      | _ => f :: c
      end
  end.

(* a database file: number of pages and the image stored at each page number (1-based) *)
Record db := { size : N; page : N -> option N }.

(* image of the last frame for page p, if any *)
Fixpoint latest (w : list frame) (p : N) : option N :=
  match w with
  | [] => None
  | f :: r => match latest r p with
              | Some x => Some x
              | None => if N.eqb (pg f) p then Some (ct f) else None
              end
  end.

Definition last_size (w : list frame) (d : N) : N :=
  fold_left (fun acc f => if is_commit f then cm f else acc) w d.

(* SQLite checkpoint of the committed frames of w into d: the file ends up with the size
   named by the last commit frame; a page within that size holds the latest committed image,
   or what the file held before; nothing exists beyond the final size. *)
Definition checkpoint (d : db) (w : list frame) : db :=
  let c := committed w in
  let sz := last_size c (size d) in
  {| size := sz;
     page := fun p => if (p <=? sz) && (1 <=? p) then
                        match latest c p with Some x => Some x | None => page d p end
                      else None |}.

Definition db_eq (a b : db) : Prop := size a = size b /\ forall p, page a p = page b p.

(* what compaction is supposed to produce: for each page only its last frame, original order *)
Fixpoint keep_last (w : list frame) : list frame :=
  match w with
  | [] => []
  | f :: r => if existsb (fun g => N.eqb (pg g) (pg f)) r then keep_last r else f :: keep_last r
  end.

(* w is empty or ends with a commit frame *)
Definition ends_committed (w : list frame) : Prop :=
  w = [] \/ exists l f, w = l ++ [f] /\ is_commit f = true.

(* ---- concrete databases, for evaluating the model on driver cases ---- *)

(* a file given as the list of the images of pages 1..n *)
Definition db_of_list (l : list N) : db :=
  {| size := N.of_nat (length l);
     page := fun p => if p =? 0 then None else nth_error l (N.to_nat (p - 1)) |}.

(* images of pages 1..size; a page never written reads as image 0 (the all-zero page) *)
Definition db_pages (d : db) : list N :=
  map (fun i => match page d (N.of_nat i) with Some x => x | None => 0 end)
      (seq 1 (N.to_nat (size d))).

Fixpoint list_N_eqb (a b : list N) : bool :=
  match a, b with
  | [], [] => true
  | x :: a', y :: b' => N.eqb x y && list_N_eqb a' b'
  | _, _ => false
  end.
