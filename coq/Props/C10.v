(* C10 — property theorems only.  The sink/restore model is instantiated with CRC-32C as computed in Coq;
   the protobuf header decoder [dec] is arbitrary (no assumption about it in the exactness theorems). *)
From Coq Require Import List NArith.
From RQ Require Import Model.C10 Proofs.C10.
Import ListNotations.
Open Scope N_scope.

Theorem C10_split_invariant : forall dec fn cs cs',
  nonempty_chunks cs -> nonempty_chunks cs' -> concat cs = concat cs' ->
  transfer dec crc32c_upd 0 fn cs = transfer dec crc32c_upd 0 fn cs'.
Proof. exact c10_split_invariant. Qed.
Print Assumptions C10_split_invariant.

Theorem C10_install_exact : forall dec fn cs files,
  nonempty_chunks cs -> transfer dec crc32c_upd 0 fn cs = Installed files ->
  exact_frame dec crc32c_upd 0 (concat cs) files /\ sqlite_files files.
Proof. exact c10_install_exact. Qed.
Print Assumptions C10_install_exact.

Theorem C10_restore_exact : forall dec s db wals n,
  restore dec crc32c_upd 0 s = (Restored db wals, n) ->
  exact_frame dec crc32c_upd 0 s (db :: wals) /\ n = blen s.
Proof. exact c10_restore_exact. Qed.
Print Assumptions C10_restore_exact.

Theorem C10_no_truncation_no_extension : forall dec s x files files',
  exact_frame dec crc32c_upd 0 s files -> exact_frame dec crc32c_upd 0 (s ++ x) files' -> x = [].
Proof. exact c10_no_truncation_no_extension. Qed.
Print Assumptions C10_no_truncation_no_extension.

Theorem C10_transfer : forall dec fn hb db wals (zenc : bytes -> bytes) (zdec : bytes -> option bytes),
  dec hb = Some (header_for crc32c_upd 0 db wals) -> blen hb < 4294967296 ->
  valid_db db = true -> Forall (fun w => valid_wal w = true) wals ->
  (forall x, zdec (zenc x) = Some x) ->
  let s := frame hb (db :: wals) in
  blen s < 18446744073709551616 ->
  (forall cs, nonempty_chunks cs -> concat cs = s -> transfer dec crc32c_upd 0 fn cs = Installed (db :: wals)) /\
  (forall cs, nonempty_chunks cs -> Some (concat cs) = decompress zdec (compress zenc (blen s) s) ->
              transfer dec crc32c_upd 0 fn cs = Installed (db :: wals)) /\
  (blen db <= max_i64 -> Forall (fun w => blen w <= max_i64) wals ->
   restore dec crc32c_upd 0 s = (Restored db wals, blen s)).
Proof. exact c10_transfer. Qed.
Print Assumptions C10_transfer.

Theorem C10_transport_roundtrip : forall (zenc : bytes -> bytes) (zdec : bytes -> option bytes) size s,
  (forall x, zdec (zenc x) = Some x) -> size < 18446744073709551616 ->
  decompress zdec (compress zenc size s) = Some (if blen s <? size then s else take size s).
Proof. exact transport_roundtrip. Qed.
Print Assumptions C10_transport_roundtrip.
