(* C32 — specification (from the property text) and proofs about Model.C32. *)
From Coq Require Import List String Bool NArith Lia.
From RQ Require Import Model.C32.
Import ListNotations.
Open Scope string_scope.
Open Scope list_scope.

(* ---- the specification ---- *)

(* "never holds two entries with the same node ID or the same address" *)
Definition unique (c : config) : Prop := NoDup (ids c) /\ NoDup (addrs c).

(* the node an event is about; discovery and bootstrap are about nobody in particular *)
Definition event_target (ev : event) : option string :=
  match ev with
  | EJoin id _ _ _ => Some id
  | ERemove id => Some id
  | EReap id _ => Some id
  | ENotify _ _ _ _ => None
  | EBootstrap _ => None
  | ELead _ => None
  end.

(* the reap timeout configured for the role of a server, in ms *)
Definition timeout_for (p : params) (s : server) : N :=
  if svoter s then reap_timeout p else reap_ro_timeout p.

(* why node s may leave the configuration at an event: an operator's Remove of it, its own re-join,
   or the reaper after more silence than the (enabled) timeout of its role *)
Definition removal_justified (p : params) (s : server) (ev : event) : Prop :=
  match ev with
  | ERemove id => id = sid s
  | EJoin id _ _ _ => id = sid s
  | EReap id silence => id = sid s /\ (0 < timeout_for p s)%N /\ (timeout_for p s < silence)%N
  | ENotify _ _ _ _ => False
  | EBootstrap _ => False
  | ELead _ => False
  end.

(* ---- lists ---- *)

Lemma mem_In x l : mem x l = true <-> In x l.
Proof.
  unfold mem. rewrite existsb_exists. split.
  - intros (y & Hy & E). apply String.eqb_eq in E. now subst.
  - intros H. exists x. split; [assumption | apply String.eqb_refl].
Qed.

Lemma mem_false x l : mem x l = false <-> ~ In x l.
Proof.
  rewrite <- mem_In. destruct (mem x l); split; intros H.
  - discriminate.
  - exfalso. now apply H.
  - discriminate.
  - reflexivity.
Qed.

Lemma NoDup_map_eq {A B} (f : A -> B) (l : list A) a b :
  NoDup (map f l) -> In a l -> In b l -> f a = f b -> a = b.
Proof.
  induction l as [|x l IH]; cbn [map In]; intros Hnd Ha Hb E; [contradiction|].
  inversion Hnd as [|y ys Hnin Hnd']; subst.
  destruct Ha as [->|Ha], Hb as [->|Hb].
  - reflexivity.
  - exfalso. apply Hnin. rewrite E. now apply in_map.
  - exfalso. apply Hnin. rewrite <- E. now apply in_map.
  - now apply IH.
Qed.

(* ---- raft: checkConfiguration guarantees uniqueness and a voter ---- *)

Lemma check_from_spec c : forall si sa v,
  check_from c si sa v = true ->
  NoDup (ids c) /\ NoDup (addrs c)
  /\ (forall x, In x (ids c) -> ~ In x si) /\ (forall x, In x (addrs c) -> ~ In x sa)
  /\ (v = true \/ exists s, In s c /\ svoter s = true).
Proof.
  induction c as [|s c IH]; intros si sa v H; cbn [check_from] in H.
  - subst. cbn. split; [constructor|]. split; [constructor|].
    split; [intros x []|]. split; [intros x []|]. now left.
  - destruct (String.eqb (sid s) "") eqn:E1; [discriminate|].
    destruct (String.eqb (saddr s) "") eqn:E2; [discriminate|].
    destruct (mem (sid s) si) eqn:E3; [discriminate|].
    destruct (mem (saddr s) sa) eqn:E4; [discriminate|].
    apply IH in H. destruct H as (Hi & Ha & Hsi & Hsa & Hv).
    apply mem_false in E3. apply mem_false in E4.
    cbn [ids addrs map]. repeat split.
    + constructor; [|exact Hi]. intros Hin. apply (Hsi _ Hin). now left.
    + constructor; [|exact Ha]. intros Hin. apply (Hsa _ Hin). now left.
    + intros x [<-|Hx]; [exact E3|]. intros Hin. apply (Hsi _ Hx). now right.
    + intros x [<-|Hx]; [exact E4|]. intros Hin. apply (Hsa _ Hx). now right.
    + destruct Hv as [Hv|(s' & Hs' & Hv)].
      * apply orb_true_iff in Hv. destruct Hv as [Hv|Hv]; [now left|].
        right. exists s. split; [now left|assumption].
      * right. exists s'. split; [now right|assumption].
Qed.

Lemma check_unique c : check_configuration c = true -> unique c.
Proof.
  intros H. apply check_from_spec in H. destruct H as (Hi & Ha & _). now split.
Qed.

Lemma check_nonempty c : check_configuration c = true -> c <> [].
Proof.
  intros H. apply check_from_spec in H. destruct H as (_ & _ & _ & _ & [Hv|(s & Hs & _)]).
  - discriminate.
  - intros ->. destruct Hs.
Qed.

Lemma raft_change_check c ch c' : raft_change c ch = Some c' -> c' = apply_change c ch /\ check_configuration c' = true.
Proof.
  unfold raft_change. destruct (check_configuration (apply_change c ch)) eqn:E; [|discriminate].
  intros [= <-]. now split.
Qed.

Lemma leader_change_check me c ch c' :
  leader_change me c ch = Some c' -> c' = apply_change c ch /\ check_configuration c' = true.
Proof.
  unfold leader_change. destruct (has_vote c me); [apply raft_change_check | discriminate].
Qed.

Lemma raft_bootstrap_check me c servers c' :
  raft_bootstrap me c servers = Some c' -> c = [] /\ c' = servers /\ check_configuration c' = true.
Proof.
  unfold raft_bootstrap. destruct (has_vote servers me); [|discriminate]. cbn [andb].
  destruct (check_configuration servers) eqn:E; [|discriminate].
  destruct c; [|discriminate]. intros [= <-]. auto.
Qed.

(* ---- every step either keeps the configuration or installs one that passed raft's check ---- *)

Definition kept_or_checked (c c' : config) : Prop := c' = c \/ check_configuration c' = true.

Lemma join_scan_kc me id addr voter : forall snap cur cr,
  match join_scan me snap cur id addr voter cr with
  | SIgnored => True
  | SFailed c' => kept_or_checked cur c'
  | SDone c' _ => kept_or_checked cur c'
  end.
Proof.
  induction snap as [|srv rest IH]; intros cur cr; cbn [join_scan].
  - now left.
  - destruct (String.eqb (sid srv) id || String.eqb (saddr srv) addr); [|apply IH].
    destruct (String.eqb (saddr srv) addr && String.eqb (sid srv) id).
    + destruct (Bool.eqb (svoter srv) voter); [exact I | apply IH].
    + destruct (leader_change me cur (RemoveServer id)) as [cur'|] eqn:E; [|now left].
      apply leader_change_check in E. destruct E as [_ Hc].
      specialize (IH cur' cr).
      destruct (join_scan me rest cur' id addr voter cr) as [|c'|c' b]; [exact I| |];
        (destruct IH as [->|IH]; [now right | now right]).
Qed.

Lemma step_kc p st ev : kept_or_checked (cfg st) (cfg (fst (step p st ev))).
Proof.
  destruct ev as [id addr res hl|servers|id addr voter res|id|id sil|lid]; cbn [step].
  - unfold notify.
    destruct ((expect p =? 0)%N || boot st || hl); [now left|].
    destruct (mem id (map fst (notifying st))); [now left|].
    destruct (negb res); [now left|].
    destruct (N.of_nat (List.length (notifying st ++ [(id, addr)])) <? expect p)%N; [now left|].
    cbn [fst cfg].
    destruct (raft_bootstrap (self p) (cfg st) (voters_of (notifying st ++ [(id, addr)]))) as [c|] eqn:E; [|now left].
    apply raft_bootstrap_check in E. right. tauto.
  - unfold bootstrap.
    destruct (raft_bootstrap (self p) (cfg st) (voters_of servers)) as [c|] eqn:E; [|now left].
    apply raft_bootstrap_check in E. right. cbn. tauto.
  - unfold join.
    destruct (negb (has_vote (cfg st) (serving p st))); [now left|].
    destruct (negb res); [now left|].
    pose proof (join_scan_kc (serving p st) id addr voter (cfg st) (cfg st) false) as H.
    destruct (join_scan (serving p st) (cfg st) (cfg st) id addr voter false) as [|c|c cr]; [now left|exact H|].
    destruct (leader_change (serving p st) c _) as [c'|] eqn:E; [|exact H].
    apply leader_change_check in E. right. cbn. tauto.
  - unfold remove.
    destruct (leader_change (serving p st) (cfg st) (RemoveServer id)) as [c|] eqn:E; [|now left].
    apply leader_change_check in E. right. cbn. tauto.
  - unfold reap.
    destruct (find_server (cfg st) id) as [s|]; [|now left].
    destruct (reap_due p (negb (svoter s)) sil); [|now left].
    destruct (leader_change (serving p st) (cfg st) (RemoveServer id)) as [c|] eqn:E; [|now left].
    apply leader_change_check in E. right. cbn. tauto.
  - unfold transfer. destruct (_ && _ && _); now left.
Qed.

Lemma step_unique p st ev : unique (cfg st) -> unique (cfg (fst (step p st ev))).
Proof.
  intros H. destruct (step_kc p st ev) as [->|Hc]; [exact H | now apply check_unique].
Qed.

(* config_unique: every configuration reached by any history has unique ids and unique addresses *)
Theorem config_unique_from p evs : forall st, unique (cfg st) -> unique (cfg (run p st evs)).
Proof.
  unfold run. induction evs as [|ev evs IH]; intros st H; cbn [fold_left]; [exact H|].
  apply IH. now apply step_unique.
Qed.

Theorem config_unique p evs : unique (cfg (run p init evs)).
Proof. apply config_unique_from. split; constructor. Qed.

(* "every reachable configuration" includes the ones in the middle of a history *)
Lemma run_app p st a b : run p st (a ++ b) = run p (run p st a) b.
Proof. unfold run. apply fold_left_app. Qed.

Theorem config_unique_always p pre post : unique (cfg (run p init pre)) /\ unique (cfg (run p init (pre ++ post))).
Proof. split; apply config_unique. Qed.

(* ---- update_first / remove_first ---- *)

Lemma remove_first_incl c id s : In s (remove_first c id) -> In s c.
Proof.
  induction c as [|x c IH]; cbn [remove_first]; [tauto|].
  destruct (String.eqb (sid x) id); cbn [In]; tauto.
Qed.

Lemma remove_first_other c id s : In s c -> sid s <> id -> In s (remove_first c id).
Proof.
  induction c as [|x c IH]; cbn [remove_first In]; [tauto|]. intros [->|H] Hne.
  - destruct (String.eqb_spec (sid s) id); [contradiction | now left].
  - destruct (String.eqb (sid x) id); [assumption | right; now apply IH].
Qed.

Lemma remove_first_absent c id : ~ In id (ids c) -> remove_first c id = c.
Proof.
  induction c as [|x c IH]; cbn [remove_first ids map In]; [reflexivity|]. intros H.
  destruct (String.eqb_spec (sid x) id) as [E|_]; [tauto|]. f_equal. apply IH. tauto.
Qed.

Lemma remove_first_gone c id : NoDup (ids c) -> ~ In id (ids (remove_first c id)).
Proof.
  induction c as [|x c IH]; cbn [remove_first ids map]; intros Hnd; [intros []|].
  inversion Hnd as [|y ys Hnin Hnd']; subst.
  destruct (String.eqb_spec (sid x) id) as [<-|Hne]; [exact Hnin|].
  cbn [map In]. intros [E|Hin]; [contradiction | now apply IH].
Qed.

Lemma update_first_none c id f : ~ In id (ids c) -> update_first c id f = None.
Proof.
  induction c as [|x c IH]; cbn [update_first ids map In]; [reflexivity|]. intros H.
  destruct (String.eqb_spec (sid x) id) as [E|_]; [tauto|]. rewrite IH by tauto. reflexivity.
Qed.

Lemma update_first_hit c id f : In id (ids c) ->
  exists c' s, update_first c id f = Some c' /\ In s c /\ sid s = id /\ In (f s) c'.
Proof.
  induction c as [|x c IH]; cbn [update_first ids map In]; [tauto|]. intros H.
  destruct (String.eqb_spec (sid x) id) as [E|Hne].
  - exists (f x :: c), x. repeat split; auto; now left.
  - destruct H as [H|H]; [contradiction|]. destruct (IH H) as (c' & s & -> & Hs & Hid & Hf).
    exists (x :: c'), s. repeat split; auto; now right.
Qed.

Lemma update_first_other c id f c' s :
  update_first c id f = Some c' -> In s c -> sid s <> id -> In s c'.
Proof.
  revert c'. induction c as [|x c IH]; cbn [update_first]; intros c' H Hin Hne; [discriminate|].
  destruct (String.eqb_spec (sid x) id) as [E|Hx].
  - injection H as <-. destruct Hin as [->|Hin]; [contradiction | now right].
  - destruct (update_first c id f) as [r'|]; [|discriminate]. injection H as <-.
    destruct Hin as [->|Hin]; [now left | right; now apply IH].
Qed.

Definition change_target (ch : change) : string :=
  match ch with AddVoter id _ => id | AddNonvoter id _ => id | DemoteVoter id => id | RemoveServer id => id end.

Lemma apply_change_other c ch s : In s c -> sid s <> change_target ch -> In s (apply_change c ch).
Proof.
  intros Hin Hne. destruct ch as [id a|id a|id|id]; cbn [apply_change change_target] in *.
  - destruct (update_first c id _) as [c'|] eqn:E; [eapply update_first_other; eauto | apply in_or_app; now left].
  - destruct (update_first c id _) as [c'|] eqn:E; [eapply update_first_other; eauto | apply in_or_app; now left].
  - destruct (update_first c id _) as [c'|] eqn:E; [eapply update_first_other; eauto | assumption].
  - now apply remove_first_other.
Qed.

(* ---- events about one node leave every other node's entry (id, address, role) alone ---- *)

Lemma join_scan_other me id addr voter s : sid s <> id -> forall snap cur cr,
  In s cur ->
  match join_scan me snap cur id addr voter cr with
  | SIgnored => True
  | SFailed c' => In s c'
  | SDone c' _ => In s c'
  end.
Proof.
  intros Hne. induction snap as [|srv rest IH]; intros cur cr Hin; cbn [join_scan]; [exact Hin|].
  destruct (String.eqb (sid srv) id || String.eqb (saddr srv) addr); [|now apply IH].
  destruct (String.eqb (saddr srv) addr && String.eqb (sid srv) id).
  - destruct (Bool.eqb (svoter srv) voter); [exact I | now apply IH].
  - destruct (leader_change me cur (RemoveServer id)) as [cur'|] eqn:E; [|exact Hin].
    apply leader_change_check in E. destruct E as [-> _]. apply IH.
    cbn [apply_change]. now apply remove_first_other.
Qed.

Lemma step_other p st ev s :
  In s (cfg st) -> event_target ev <> Some (sid s) -> In s (cfg (fst (step p st ev))).
Proof.
  intros Hin Ht.
  destruct ev as [id addr res hl|servers|id addr voter res|id|id sil|lid]; cbn [step event_target] in *.
  - destruct (step_kc p st (ENotify id addr res hl)) as [E|E]; cbn [step] in E; [now rewrite E|].
    unfold notify in *.
    destruct ((expect p =? 0)%N || boot st || hl); [exact Hin|].
    destruct (mem id (map fst (notifying st))); [exact Hin|].
    destruct (negb res); [exact Hin|].
    destruct (N.of_nat (List.length (notifying st ++ [(id, addr)])) <? expect p)%N; [exact Hin|].
    cbn [fst cfg] in *.
    destruct (raft_bootstrap (self p) (cfg st) _) as [c|] eqn:Eb; [|exact Hin].
    apply raft_bootstrap_check in Eb. destruct Eb as (E0 & _). rewrite E0 in Hin. destruct Hin.
  - unfold bootstrap.
    destruct (raft_bootstrap (self p) (cfg st) _) as [c|] eqn:Eb; [|exact Hin].
    apply raft_bootstrap_check in Eb. destruct Eb as (E0 & _). rewrite E0 in Hin. destruct Hin.
  - assert (Hne : sid s <> id) by (intros E; apply Ht; now rewrite E).
    unfold join.
    destruct (negb (has_vote (cfg st) (serving p st))); [exact Hin|].
    destruct (negb res); [exact Hin|].
    pose proof (join_scan_other (serving p st) id addr voter s Hne (cfg st) (cfg st) false Hin) as H.
    destruct (join_scan (serving p st) (cfg st) (cfg st) id addr voter false) as [|c|c cr]; [exact Hin|exact H|].
    destruct (leader_change (serving p st) c _) as [c'|] eqn:E; [|exact H].
    apply leader_change_check in E. destruct E as [-> _]. cbn [fst cfg set_cfg].
    apply apply_change_other; [exact H|]. destruct voter; [|destruct cr]; exact Hne.
  - assert (Hne : sid s <> id) by (intros E; apply Ht; now rewrite E).
    unfold remove.
    destruct (leader_change (serving p st) (cfg st) (RemoveServer id)) as [c|] eqn:E; [|exact Hin].
    apply leader_change_check in E. destruct E as [-> _]. cbn. now apply remove_first_other.
  - assert (Hne : sid s <> id) by (intros E; apply Ht; now rewrite E).
    unfold reap.
    destruct (find_server (cfg st) id) as [s'|]; [|exact Hin].
    destruct (reap_due p (negb (svoter s')) sil); [|exact Hin].
    destruct (leader_change (serving p st) (cfg st) (RemoveServer id)) as [c|] eqn:E; [|exact Hin].
    apply leader_change_check in E. destruct E as [-> _]. cbn. now apply remove_first_other.
  - unfold transfer. destruct (_ && _ && _); exact Hin.
Qed.

(* ---- role_as_requested ---- *)

Definition exact (id addr : string) (s : server) : bool := String.eqb (saddr s) addr && String.eqb (sid s) id.

(* no entry has both the id and the address of the request: the loop never ignores, never sets change_role,
   and if it meets the id it removes it *)
Lemma join_scan_no_exact me id addr voter : forall snap cur cr,
  (forall s, In s snap -> exact id addr s = false) ->
  NoDup (ids cur) ->
  match join_scan me snap cur id addr voter cr with
  | SIgnored => False
  | SFailed _ => True
  | SDone c' cr' => cr' = cr /\ (In id (ids snap) \/ ~ In id (ids cur) -> ~ In id (ids c'))
  end.
Proof.
  induction snap as [|srv rest IH]; intros cur cr Hex Hnd; cbn [join_scan].
  - split; [reflexivity|]. cbn. tauto.
  - assert (Hrest : forall s, In s rest -> exact id addr s = false) by (intros s Hs; apply Hex; now right).
    pose proof (Hex srv (or_introl eq_refl)) as Hsrv. unfold exact in Hsrv.
    destruct (String.eqb (sid srv) id || String.eqb (saddr srv) addr) eqn:Eor.
    + rewrite Hsrv.
      destruct (leader_change me cur (RemoveServer id)) as [cur'|] eqn:E; [|exact I].
      apply leader_change_check in E. destruct E as [E Hc]. cbn [apply_change] in E.
      assert (Hgone : ~ In id (ids cur')) by (rewrite E; now apply remove_first_gone).
      apply check_unique in Hc. destruct Hc as [Hnd' _].
      specialize (IH cur' cr Hrest Hnd').
      destruct (join_scan me rest cur' id addr voter cr) as [|c'|c' cr']; [exact IH|exact I|].
      destruct IH as [-> IH]. split; [reflexivity|]. intros _. apply IH. now right.
    + apply orb_false_iff in Eor. destruct Eor as [Eid _].
      specialize (IH cur cr Hrest Hnd).
      destruct (join_scan me rest cur id addr voter cr) as [|c'|c' cr']; [exact IH|exact I|].
      destruct IH as [-> IH]. split; [reflexivity|]. cbn [ids map In].
      intros [[Hh|Hh]|Hh]; [|apply IH; now left|apply IH; now right].
      apply String.eqb_neq in Eid. contradiction.
Qed.

(* every entry is either the exact (id, addr) entry with role v0, or shares neither id nor address:
   nothing is removed; the request is ignored iff the role matches *)
Lemma join_scan_exact me id addr voter v0 : forall snap cur cr,
  (forall s, In s snap -> (sid s = id /\ saddr s = addr /\ svoter s = v0) \/ (sid s <> id /\ saddr s <> addr)) ->
  join_scan me snap cur id addr voter cr =
  if existsb (exact id addr) snap
  then (if Bool.eqb v0 voter then SIgnored else SDone cur true)
  else SDone cur cr.
Proof.
  induction snap as [|srv rest IH]; intros cur cr H; cbn [join_scan existsb]; [reflexivity|].
  assert (Hrest : forall s, In s rest -> (sid s = id /\ saddr s = addr /\ svoter s = v0) \/ (sid s <> id /\ saddr s <> addr))
    by (intros s Hs; apply H; now right).
  unfold exact at 1.
  destruct (H srv (or_introl eq_refl)) as [(E1 & E2 & E3)|(N1 & N2)].
  - rewrite E1, E2, E3, !String.eqb_refl. cbn [orb andb].
    destruct (Bool.eqb v0 voter) eqn:Ev; [reflexivity|].
    rewrite IH by exact Hrest. destruct (existsb (exact id addr) rest); reflexivity.
  - apply String.eqb_neq in N1, N2. rewrite N1, N2. cbn [orb andb]. now apply IH.
Qed.

Lemma exact_true id addr s : exact id addr s = true <-> sid s = id /\ saddr s = addr.
Proof. unfold exact. rewrite andb_true_iff, !String.eqb_eq. tauto. Qed.

Lemma has_exact_dec id addr c :
  (exists s, In s c /\ exact id addr s = true) \/ (forall s, In s c -> exact id addr s = false).
Proof.
  destruct (existsb (exact id addr) c) eqn:E.
  - left. apply existsb_exists in E. exact E.
  - right. intros s Hs. destruct (exact id addr s) eqn:Es; [|reflexivity].
    assert (existsb (exact id addr) c = true) by (apply existsb_exists; eauto). congruence.
Qed.

(* role_as_requested: when Join answers without error, the configuration holds the node with the id, the address
   and the role of the request *)
Theorem role_as_requested p st id addr voter resolves :
  unique (cfg st) ->
  snd (join p st id addr voter resolves) <> RErr ->
  In (mk_server id addr voter) (cfg (fst (join p st id addr voter resolves))).
Proof.
  intros [Hni Hna] Hres. unfold join in *.
  destruct (negb (has_vote (cfg st) (serving p st))); [now contradiction Hres|].
  destruct (negb resolves); [now contradiction Hres|].
  destruct (has_exact_dec id addr (cfg st)) as [(srv & Hsrv & Hex)|Hno].
  - (* the node is there with this id and address *)
    apply exact_true in Hex. destruct Hex as [Eid Eaddr].
    assert (Hall : forall s, In s (cfg st) ->
              (sid s = id /\ saddr s = addr /\ svoter s = svoter srv) \/ (sid s <> id /\ saddr s <> addr)).
    { intros s Hs. destruct (String.eqb_spec (sid s) id) as [E|N].
      - left. assert (s = srv) by (eapply (NoDup_map_eq sid); eauto; congruence). subst s. auto.
      - destruct (String.eqb_spec (saddr s) addr) as [E|N2]; [|now right].
        assert (s = srv) by (eapply (NoDup_map_eq saddr); eauto; congruence). subst s. contradiction. }
    rewrite (join_scan_exact (serving p st) id addr voter (svoter srv) (cfg st) (cfg st) false Hall) in *.
    assert (Hexists : existsb (exact id addr) (cfg st) = true).
    { apply existsb_exists. exists srv. split; [assumption|]. apply exact_true. auto. }
    rewrite Hexists in *.
    destruct (Bool.eqb (svoter srv) voter) eqn:Ev.
    + apply eqb_prop in Ev. cbn [fst]. destruct srv as [i a v]. cbn in *. subst. exact Hsrv.
    + destruct (leader_change (serving p st) (cfg st) _) as [c'|] eqn:E; [|now contradiction Hres].
      apply leader_change_check in E. destruct E as [-> _]. cbn [fst cfg set_cfg].
      assert (Hin : In id (ids (cfg st))) by (rewrite <- Eid; now apply in_map).
      destruct voter; cbn [apply_change].
      * destruct (update_first_hit (cfg st) id (fun s => if svoter s then set_addr s addr else mk_server id addr true) Hin)
          as (c' & s & -> & Hs & Hsid & Hf).
        assert (s = srv) by (eapply (NoDup_map_eq sid); eauto; congruence). subst s.
        destruct (svoter srv); [discriminate Ev | exact Hf].
      * destruct (update_first_hit (cfg st) id (fun s => mk_server (sid s) (saddr s) false) Hin)
          as (c' & s & -> & Hs & Hsid & Hf).
        assert (s = srv) by (eapply (NoDup_map_eq sid); eauto; congruence). subst s.
        rewrite Eid, Eaddr in Hf. exact Hf.
  - (* new node, or a node that comes back with another id or address *)
    pose proof (join_scan_no_exact (serving p st) id addr voter (cfg st) (cfg st) false Hno Hni) as H.
    destruct (join_scan (serving p st) (cfg st) (cfg st) id addr voter false) as [|c|c cr]; [contradiction|now contradiction Hres|].
    destruct H as [-> Hgone].
    assert (Hg : ~ In id (ids c)).
    { apply Hgone. destruct (in_dec string_dec id (ids (cfg st))); [now left | now right]. }
    destruct (leader_change (serving p st) c _) as [c'|] eqn:E; [|now contradiction Hres].
    apply leader_change_check in E. destruct E as [-> _]. cbn [fst cfg set_cfg].
    destruct voter; cbn [apply_change]; rewrite update_first_none by exact Hg;
      apply in_or_app; right; now left.
Qed.

(* the same, at any point of any history *)
Theorem role_as_requested_reachable p evs id addr voter resolves :
  let st := run p init evs in
  snd (step p st (EJoin id addr voter resolves)) <> RErr ->
  In (mk_server id addr voter) (cfg (fst (step p st (EJoin id addr voter resolves)))).
Proof. cbn [step]. intros H. apply role_as_requested; [apply config_unique | exact H]. Qed.

(* ... and the node keeps that entry until an event names it: nobody else's join, removal or reaping touches it *)
Theorem role_kept p st ev s :
  In s (cfg st) -> event_target ev <> Some (sid s) -> In s (cfg (fst (step p st ev))).
Proof. apply step_other. Qed.

(* ---- reaped_only_after_timeout ---- *)

Lemma find_server_spec c id s : find_server c id = Some s -> In s c /\ sid s = id.
Proof.
  unfold find_server. destruct (String.eqb id ""); [discriminate|]. intros H.
  apply find_some in H. destruct H as [Hin E]. apply String.eqb_eq in E. auto.
Qed.

(* a node leaves the configuration only for a reason the property allows *)
Theorem removed_only_when_justified p st ev s :
  unique (cfg st) -> In s (cfg st) ->
  ~ In (sid s) (ids (cfg (fst (step p st ev)))) ->
  removal_justified p s ev.
Proof.
  intros [Hni _] Hin Hgone.
  assert (Ht : event_target ev = Some (sid s)).
  { destruct (event_target ev) as [t|] eqn:E.
    - destruct (string_dec t (sid s)) as [->|N]; [reflexivity|]. exfalso. apply Hgone.
      apply in_map. apply step_other; [exact Hin|]. rewrite E. congruence.
    - exfalso. apply Hgone. apply in_map. apply step_other; [exact Hin|]. rewrite E. discriminate. }
  destruct ev as [id addr res hl|servers|id addr voter res|id|id sil|lid]; cbn [event_target] in Ht; try discriminate;
    injection Ht as ->; cbn [removal_justified]; try reflexivity.
  split; [reflexivity|].
  cbn [step] in Hgone. unfold reap in Hgone.
  destruct (find_server (cfg st) (sid s)) as [s'|] eqn:Ef.
  2:{ exfalso. apply Hgone. now apply in_map. }
  apply find_server_spec in Ef. destruct Ef as [Hin' Eid].
  assert (s' = s) by (eapply (NoDup_map_eq sid); eauto). subst s'.
  destruct (reap_due p (negb (svoter s)) sil) eqn:Ed.
  2:{ exfalso. apply Hgone. now apply in_map. }
  unfold reap_due in Ed. unfold timeout_for.
  destruct (svoter s); cbn [negb andb orb] in Ed.
  - rewrite andb_true_iff in Ed. destruct Ed as [E1 E2].
    apply N.ltb_lt in E1, E2. now split.
  - rewrite orb_false_r in Ed. rewrite andb_true_iff in Ed. destruct Ed as [E1 E2].
    apply N.ltb_lt in E1, E2. now split.
Qed.

Theorem reaped_only_after_timeout p evs id silence s :
  let st := run p init evs in
  In s (cfg st) ->
  ~ In (sid s) (ids (cfg (fst (step p st (EReap id silence))))) ->
  id = sid s /\ (0 < timeout_for p s)%N /\ (timeout_for p s < silence)%N.
Proof.
  intros st Hin Hgone.
  exact (removed_only_when_justified p st (EReap id silence) s (config_unique p evs) Hin Hgone).
Qed.

Theorem removed_only_when_justified_reachable p evs ev s :
  let st := run p init evs in
  In s (cfg st) -> ~ In (sid s) (ids (cfg (fst (step p st ev)))) -> removal_justified p s ev.
Proof. intros st. apply removed_only_when_justified. apply config_unique. Qed.

(* ---- the checker runs the functions the theorems are about ---- *)
Lemma check_steps_run p steps : forall st st',
  check_steps p st steps = Some st' -> st' = run p st (map fst steps).
Proof.
  induction steps as [|[ev o] r IH]; intros st st' H; cbn [check_steps] in H.
  - now injection H as <-.
  - destruct (result_eqb _ _ && _ && _ && _); [|discriminate]. apply IH in H. exact H.
Qed.

(* ---- non-vacuity ---- *)
Example ex_p := mk_params "n0" 0 20000 40000.
Example ex_hist :=
  [EBootstrap [("n0", "a0")]; EJoin "n1" "a1" true true; EJoin "n2" "a2" false true;
   EJoin "n1" "b1" true true;            (* same node, new address *)
   EJoin "n3" "a2" true true;            (* new node at an address in use: refused *)
   EJoin "n2" "a3" true true;            (* was non-voter at a2, now voter at a3 *)
   EJoin "n2" "a3" false true;           (* same id and address, other role: demoted in place *)
   EReap "n2" 30000; EReap "n2" 50000; EReap "n1" 30000; ERemove "n9"].
Example ex_run :
  map snd (trace ex_p init ex_hist) = [ROk; ROk; ROk; ROk; RErr; ROk; ROk; ROk; ROk; ROk; ROk]
  /\ cfg (run ex_p init ex_hist) = [mk_server "n0" "a0" true].
Proof. vm_compute. auto. Qed.
Example ex_role :
  let st := run ex_p init (firstn 6 ex_hist) in
  In (mk_server "n2" "a3" true) (cfg st)
  /\ snd (step ex_p st (EJoin "n2" "a3" false true)) = ROk
  /\ In (mk_server "n2" "a3" false) (cfg (fst (step ex_p st (EJoin "n2" "a3" false true)))).
Proof. vm_compute. tauto. Qed.
(* the reaper decides from the configuration as it is now, also when the role was changed while another node led *)
Example ex_p2 := mk_params "n0" 0 0 20000.    (* voters are never reaped, read replicas after 20 s *)
Example ex_lead_hist :=
  [EBootstrap [("n0", "a0")]; EJoin "n1" "a1" true true; EJoin "n2" "a2" true true; EJoin "n3" "a3" false true;
   EReap "n3" 10000;                     (* read replica, 10 s < 20 s: stays *)
   ELead "n1"; EJoin "n3" "a3" true true; ELead "n0";
   EReap "n3" 30000].                    (* now a voter: never reaped, although 30 s > the read-replica timeout *)
Example ex_lead :
  map snd (trace ex_p2 init ex_lead_hist) = [ROk; ROk; ROk; ROk; ROk; ROk; ROk; ROk; ROk]
  /\ In (mk_server "n3" "a3" true) (cfg (run ex_p2 init ex_lead_hist))
  /\ serving ex_p2 (run ex_p2 init ex_lead_hist) = "n0".
Proof. vm_compute. tauto. Qed.
Example ex_reap :
  let st := run ex_p init (firstn 7 ex_hist) in
  In (mk_server "n2" "a3" false) (cfg st)
  /\ In "n2" (ids (cfg (fst (step ex_p st (EReap "n2" 30000)))))
  /\ ~ In "n2" (ids (cfg (fst (step ex_p st (EReap "n2" 50000))))).
Proof. vm_compute. repeat split; try tauto. intros [H|[H|[]]]; discriminate. Qed.
