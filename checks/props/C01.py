# C01 — configuration read by bin/check (see checks/registry.py)
SPEC = dict(
    title="Replicas converge: same committed log gives the same database on every node",
    pkg="./store", files=["store/c01_verif_test.go", "store/c33_c01_common_verif_test.go"],
    rule="3-node in-process clusters (q: 2 hand-picked + 8 generated programs + 1 long-gap scenario, t: 200): 4-9 requests of 1-3 statements (INSERT/UPDATE/DELETE/UPSERT/CTE/RETURNING, "
         "DDL, parameters, transactions) whose values come from random(), randomblob(n) and every date/time form at an explicit or implicit 'now' (sub-second forms, "
         "spaced/quoted/commented call syntax), sent through command/sql.Process + Store.Execute on the leader; observed on 6 apply paths: leader, follower live, node "
         "joining after the leader truncated its log (snapshot install + tail), follower re-opened >= 1.2 s later with its file reused and with the file restored "
         "(entries after its snapshot applied again), peers.json recovery of a copy of the follower. Programs also carry session state between requests (TEMP table, last_insert_rowid()/changes(), BEGIN…COMMIT across two requests; never across a snapshot point — that is the known finding C01:session-state-not-in-snapshot, one corpus case) and rejected loads (4 kinds of unreadable data) after the follower's snapshot. One long-gap cluster (q: 62 s; t: 35/65/130 s) runs beside the others: live nodes idle between two entries that share session state, then late join / restart / recovery replay them back to back. A program is non-trivial when >= 1 statement was rewritten and "
         "wrote >= 1 row; distinct by the whole input",
    exhaustive=False,
    trusted=["SQLite evaluates a statement without environment-reading calls as a function of the database and the statement (Model.C01: `sem` after `inst`) — hypothesis, the theorem is partial in that sense",
             "snapshot/restore fidelity (C04, C10) enters as the premise restore (snapshot d) = d",
             "github.com/rqlite/sql parser (trees of the sent and of the logged statements); hashicorp/raft delivers the committed log in order to every node"],
    assumptions=["one read-write SQLite connection serves a node for the life of its database (state on it — TEMP tables, last_insert_rowid(), an open transaction — "
                 "is kept between log entries however far apart they are applied); the long-gap scenario is what ties this",
                 "excluded by design, as in the property: rewriting disabled, per-statement db_timeout, CURRENT_TIME/DATE/TIMESTAMP and DEFAULT expressions, random() inside ORDER BY, 'localtime'",
                 "foreign keys off in the cluster runs (the foreign-key dimension of recovery is C33's)"],
    level_text="C01_converge_partial: for every program in the quantifier (scan_sound, no random in ORDER BY), every snapshot point and every assignment of environments to "
               "applications, restart (both ways), recovery, install and live apply at another time equal the leader's live apply; C01_paths_agree and C01_env_independent are its two halves. "
               "Lists of any length.",
    level_note="Model = apply paths over an abstract SQLite + Model.C14's rewriter; composition with C14_rewrite_complete; tie = real 3-node cluster runs, the logged "
               "statements matched against the rewriter model, logical dumps of all paths compared.",
    technique="Coq proof (path algebra + environment independence via C14) + cluster differential run with logical-dump oracle",
    design_ref="6/C01",
    case_preamble="Open Scope string_scope.\n",
    timeout_quick=500, timeout_thorough=7200,
)
