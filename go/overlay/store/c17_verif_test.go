package store

// C17 driver.  Every case is a HISTORY of operations on one live single-node Store (reads at every
// level, writes, refused breaking-PRAGMA attempts, backups of every format that succeed or fail,
// snapshots), each operation observed.  Generated SQL texts (several SQL statements per text, read-only heads with writing
// tails, EXPLAIN, PRAGMA, ATTACH, temp tables, CTE writes, RETURNING, comments and semicolons inside
// literals) are sent
//   - directly to the node's database object: Query (read-only pool), Request, Execute (read-write connection)
//   - through a real single-node Store: Query / Request at every consistency level, Execute.
// Observed after every operation, from a separate read-only connection: the logical contents (rows of
// t, extra tables, user_version) and PRAGMA data_version, whether the raft log grew, and - through the
// read-only pool itself - whether the pooled connection still has query_only set.
// Every SQL statement's read-only flag (sqlite3_stmt_readonly, asked of the driver directly) and row
// changes are measured by running it alone on a scratch database.

import (
	"bytes"
	"context"
	"database/sql"
	"encoding/json"
	"fmt"
	"io"
	"math/rand"
	"os"
	"path/filepath"
	"sort"
	"strings"
	"testing"
	"time"

	"github.com/mattn/go-sqlite3"
	"github.com/rqlite/rqlite/v10/command/proto"
)

type c17Sub struct {
	SQL string  `json:"sql"`
	RO  bool    `json:"ro"`            // declared: read-only for SQLite
	Ops []c17Op `json:"ops,omitempty"` // declared absolute row changes
}

type c17Op struct {
	K   int64 `json:"k"`
	Del bool  `json:"del,omitempty"`
	V   int64 `json:"v,omitempty"`
}

type c17Text struct {
	Raw     string   `json:"raw,omitempty"`     // verbatim text ($DB = the node's own database file); RawRO/RawOps declare what it is
	RawRO   bool     `json:"raw_ro,omitempty"`
	RawOps  []c17Op  `json:"raw_ops,omitempty"`
	Subs    []c17Sub `json:"subs,omitempty"`
	Bad     bool     `json:"bad,omitempty"`     // first statement does not prepare
	Explain bool     `json:"explain,omitempty"` // Statement.SqlExplain
	Sep     []string `json:"sep,omitempty"`     // separators after each sub (";", "; ", " ;\n-- c\n", ...)
}

type c17Row struct {
	K int64 `json:"k"`
	V int64 `json:"v"`
}

// one operation of a history on the live Store
type c17Step struct {
	Op     string     `json:"op"` // dbquery dbrequest dbexecute query request execute backup snapshot
	Level  string     `json:"level,omitempty"`
	Fresh  bool       `json:"fresh,omitempty"` // linearizable only: no strong read has gone through the log in this term yet (as after a leader change)
	Texts  []c17Text  `json:"texts,omitempty"`
	Backup *c17Backup `json:"backup,omitempty"`
	Kind   string     `json:"kind,omitempty"` // generator category: probe, breaking-pragma, attach-self, ...
}

type c17Backup struct {
	Format   string `json:"format"` // binary sql delete
	Vacuum   bool   `json:"vacuum,omitempty"`
	Compress bool   `json:"compress,omitempty"`
	Dest     string `json:"dest"` // file (fresh empty file), prefilled (file with content), buffer, failwriter (errors after 100 bytes), deadwriter (errors at once)
}

// a case: contents to start from and a history of operations; every operation is observed
type c17Input struct {
	Init  []c17Row  `json:"init"`
	Steps []c17Step `json:"steps"`
}

func (t c17Text) sql(dbPath string) string {
	if t.Raw != "" {
		return strings.ReplaceAll(t.Raw, "$DB", dbPath)
	}
	if t.Bad {
		return "SELEC 1 FROM t; DELETE FROM t"
	}
	var sb strings.Builder
	for i, s := range t.Subs {
		sb.WriteString(s.SQL)
		if i < len(t.Sep) {
			sb.WriteString(t.Sep[i])
		} else if i < len(t.Subs)-1 {
			sb.WriteString("; ")
		}
	}
	return sb.String()
}

const c17Schema = "CREATE TABLE IF NOT EXISTS t(id INTEGER PRIMARY KEY, v INTEGER)"

func c17ResetSQL(init []c17Row) []string {
	out := []string{"DELETE FROM t", "DROP TABLE IF EXISTS u1", "DROP TABLE IF EXISTS u2", "DROP TABLE IF EXISTS u3", "PRAGMA user_version=0"}
	for _, r := range init {
		out = append(out, fmt.Sprintf("INSERT INTO t(id,v) VALUES(%d,%d)", r.K, r.V))
	}
	return out
}

// logical contents: rows of t, (9000+K,1) for table uK, (8000,user_version) when not 0
func c17Dump(db *sql.DB) []c17Row {
	var out []c17Row
	rows, err := db.Query("SELECT id, v FROM t ORDER BY id")
	if err != nil {
		panic(err)
	}
	for rows.Next() {
		var r c17Row
		var v sql.NullInt64
		if err := rows.Scan(&r.K, &v); err != nil {
			panic(err)
		}
		r.V = v.Int64
		out = append(out, r)
	}
	rows.Close()
	var uv int64
	if err := db.QueryRow("PRAGMA user_version").Scan(&uv); err != nil {
		panic(err)
	}
	if uv != 0 {
		out = append(out, c17Row{8000, uv})
	}
	rows, err = db.Query("SELECT name FROM sqlite_master WHERE type='table' AND name != 't' ORDER BY name")
	if err != nil {
		panic(err)
	}
	for rows.Next() {
		var n string
		rows.Scan(&n)
		k := int64(9999)
		fmt.Sscanf(n, "u%d", &k)
		out = append(out, c17Row{9000 + k, 1})
	}
	rows.Close()
	sort.Slice(out, func(i, j int) bool { return out[i].K < out[j].K })
	return out
}

func c17Apply(rows []c17Row, ops []c17Op) []c17Row {
	m := map[int64]int64{}
	for _, r := range rows {
		m[r.K] = r.V
	}
	for _, o := range ops {
		if o.Del {
			delete(m, o.K)
		} else {
			m[o.K] = o.V
		}
	}
	var out []c17Row
	for k, v := range m {
		out = append(out, c17Row{k, v})
	}
	sort.Slice(out, func(i, j int) bool { return out[i].K < out[j].K })
	return out
}

func c17Eq(a, b []c17Row) bool {
	if len(a) != len(b) {
		return false
	}
	for i := range a {
		if a[i] != b[i] {
			return false
		}
	}
	return true
}

type c17Env struct {
	dir     string
	s       *Store
	obs     *sql.DB // separate read-only connection to the node's database file
	obsConn *sql.Conn
	scratch *sql.DB // plain SQLite database for measuring single statements
}

func c17Open(t *testing.T) *c17Env {
	dir, err := os.MkdirTemp("", "c17-verif")
	if err != nil {
		t.Fatal(err)
	}
	e := &c17Env{dir: dir}
	s := New(&Config{DBConf: NewDBConfig(), Dir: filepath.Join(dir, "node"), ID: "n1"}, mustMockLayer("localhost:0"))
	s.SnapshotThreshold = 1 << 30
	if err := s.Open(); err != nil {
		t.Fatal(err)
	}
	if err := s.Bootstrap(NewServer(s.ID(), s.Addr(), true)); err != nil {
		t.Fatal(err)
	}
	if _, err := s.WaitForLeader(10 * time.Second); err != nil {
		t.Fatal(err)
	}
	e.s = s
	if _, _, err := s.Execute(context.Background(), executeRequestFromString(c17Schema, false, false)); err != nil {
		t.Fatal(err)
	}
	e.obs, err = sql.Open("sqlite3", "file:"+s.dbPath+"?mode=ro")
	if err != nil {
		t.Fatal(err)
	}
	e.obs.SetMaxOpenConns(1)
	e.scratch, err = sql.Open("sqlite3", "file:"+filepath.Join(dir, "scratch.db"))
	if err != nil {
		t.Fatal(err)
	}
	e.scratch.SetMaxOpenConns(1)
	if _, err := e.scratch.Exec(c17Schema); err != nil {
		t.Fatal(err)
	}
	return e
}

func (e *c17Env) Close() {
	e.obs.Close()
	e.scratch.Close()
	e.s.Close(true)
	os.RemoveAll(e.dir)
}

func (e *c17Env) dataVersion() int64 {
	var v int64
	if err := e.obs.QueryRow("PRAGMA data_version").Scan(&v); err != nil {
		panic(err)
	}
	return v
}

// measure one SQL statement alone on the scratch database holding `init`
func (e *c17Env) measure(init []c17Row, sub c17Sub) (ro bool, after []c17Row, err error) {
	e.scratch.Exec("DETACH DATABASE m")
	for _, q := range c17ResetSQL(init) {
		if _, err := e.scratch.Exec(q); err != nil {
			return false, nil, err
		}
	}
	conn, err := e.scratch.Conn(context.Background())
	if err != nil {
		return false, nil, err
	}
	err = conn.Raw(func(dc any) error {
		st, err := dc.(*sqlite3.SQLiteConn).Prepare(sub.SQL)
		if err != nil {
			return err
		}
		ro = st.(*sqlite3.SQLiteStmt).Readonly()
		return st.Close()
	})
	if err == nil {
		_, err = conn.ExecContext(context.Background(), sub.SQL)
	}
	conn.Close()
	if err != nil {
		return false, nil, err
	}
	return ro, c17Dump(e.scratch), nil
}

func c17Level(l string) proto.ConsistencyLevel {
	switch l {
	case "none":
		return proto.ConsistencyLevel_NONE
	case "weak":
		return proto.ConsistencyLevel_WEAK
	case "linearizable":
		return proto.ConsistencyLevel_LINEARIZABLE
	case "strong":
		return proto.ConsistencyLevel_STRONG
	default:
		return proto.ConsistencyLevel_AUTO
	}
}

func c17CoqTable(rows []c17Row) string {
	it := make([]string, len(rows))
	for i, r := range rows {
		it[i] = fmt.Sprintf("(%d, %d)", r.K, r.V)
	}
	return coqList(it)
}

func c17CoqOps(ops []c17Op) string {
	it := make([]string, len(ops))
	for i, o := range ops {
		if o.Del {
			it[i] = fmt.Sprintf("(%d, None)", o.K)
		} else {
			it[i] = fmt.Sprintf("(%d, Some %d)", o.K, o.V)
		}
	}
	return coqList(it)
}

type c17FailWriter struct{ n, limit int }

func (f *c17FailWriter) Write(b []byte) (int, error) {
	f.n += len(b)
	if f.n > f.limit {
		return 0, fmt.Errorf("c17: destination refuses more data")
	}
	return len(b), nil
}

// PRAGMA query_only of the read-only pool, read through the pool (database/sql hands out the
// connection that was released last, i.e. the one the preceding operation used)
func (e *c17Env) poolQueryOnly() (allSet bool, detail string) {
	allSet = true
	for i := 0; i < 3; i++ {
		rows, err := e.s.db.Query(&proto.Request{Statements: []*proto.Statement{{Sql: "PRAGMA query_only"}}}, false)
		if err != nil || len(rows) != 1 || rows[0].Error != "" || len(rows[0].Values) != 1 {
			return false, fmt.Sprintf("cannot read PRAGMA query_only through the pool: %v %v", err, rows)
		}
		if v := rows[0].Values[0].Parameters[0].GetI(); v != 1 {
			allSet = false
			detail = fmt.Sprintf("PRAGMA query_only = %d on a pooled read-only connection", v)
		}
	}
	return allSet, detail
}

// after a detected leak: put query_only back on the pooled connections so that the next case starts clean
func (e *c17Env) restorePool() {
	for i := 0; i < 4; i++ {
		e.s.db.Query(&proto.Request{Statements: []*proto.Statement{{Sql: "PRAGMA query_only=1"}}}, false)
	}
}

type c17StepObs struct {
	before, after []c17Row
	dv0, dv1      int64
	appended      bool
	nRW           int64
	kinds         []string
	upg           bool
	refused       bool
	callErr       error
	poolOK        bool
	poolDetail    string
}

func (e *c17Env) runBackup(b *c17Backup) error {
	br := &proto.BackupRequest{Vacuum: b.Vacuum, Compress: b.Compress}
	switch b.Format {
	case "binary":
		br.Format = proto.BackupRequest_BACKUP_REQUEST_FORMAT_BINARY
	case "sql":
		br.Format = proto.BackupRequest_BACKUP_REQUEST_FORMAT_SQL
	default:
		br.Format = proto.BackupRequest_BACKUP_REQUEST_FORMAT_DELETE
	}
	var dst io.Writer
	switch b.Dest {
	case "file", "prefilled":
		f, err := os.CreateTemp(e.dir, "c17-backup-")
		if err != nil {
			return err
		}
		defer os.Remove(f.Name())
		defer f.Close()
		if b.Dest == "prefilled" {
			f.WriteString("this file is not empty, and is not a SQLite database")
			f.Sync()
		}
		dst = f
	case "failwriter":
		dst = &c17FailWriter{limit: 100}
	case "deadwriter":
		dst = &c17FailWriter{}
	default:
		dst = &bytes.Buffer{}
	}
	return e.s.Backup(context.Background(), br, dst)
}

func c17Run(w *vWriter, e *c17Env, in c17Input) {
	key := vJSON(in)
	ctx := context.Background()
	// measure every generated statement alone; the declared flags/changes are the generator's, the measurement is SQLite's
	ros := map[string]bool{}
	for _, st := range in.Steps {
		for _, t := range st.Texts {
			for _, sub := range t.Subs {
				if _, done := ros[sub.SQL]; done {
					continue
				}
				ro, after, err := e.measure(in.Init, sub)
				if err != nil {
					w.Emit(VCase{Input: in, Key: key, Inconcl: fmt.Sprintf("statement %q does not run alone: %v", sub.SQL, err)})
					return
				}
				if want := c17Apply(in.Init, sub.Ops); !c17Eq(after, want) || ro != sub.RO {
					w.Emit(VCase{Input: in, Key: key, OracleFail: fmt.Sprintf("statement %q: declared ro=%v ops=%v, SQLite says ro=%v contents %v (from %v)", sub.SQL, sub.RO, sub.Ops, ro, after, in.Init),
						Sig: "C17:generator-declaration-wrong"})
					return
				}
				ros[sub.SQL] = ro
			}
		}
	}
	// reset the node's database (directly on its read-write connection) and connection-local state
	reset := &proto.Request{Statements: []*proto.Statement{{Sql: "DETACH DATABASE m"}}}
	for _, q := range c17ResetSQL(in.Init) {
		reset.Statements = append(reset.Statements, &proto.Statement{Sql: q})
	}
	if _, err := e.s.db.Execute(reset, false); err != nil {
		w.Emit(VCase{Input: in, Key: key, Inconcl: "reset: " + err.Error()})
		return
	}
	start := c17Dump(e.obs)
	var initOps []c17Op
	for _, r := range in.Init {
		initOps = append(initOps, c17Op{K: r.K, V: r.V})
	}
	if !c17Eq(start, c17Apply(nil, initOps)) {
		w.Emit(VCase{Input: in, Key: key, Inconcl: fmt.Sprintf("reset left %v, want %v", start, in.Init)})
		return
	}
	// leaks found by earlier cases were repaired when they were reported: a pool that is unprotected now never was protected
	startOK, startDetail := e.poolQueryOnly()

	c := VCase{Input: in, Key: key}
	tags := map[string]bool{}
	var stepsCoq []string
	type verdict struct{ fail, sig string }
	var verdicts []verdict
	failingBefore := false // a failing/refused operation happened earlier in this history
	poolWasOK := startOK
	if !startOK {
		verdicts = append(verdicts, verdict{"the read-only pool is unprotected before any operation of the history: " + startDetail, "C17:ro-pool-query-only-lost:before-any-operation"})
	}
	cur := start
	for si, st := range in.Steps {
		o := c17StepObs{before: cur, nRW: -1}
		if st.Level == "linearizable" && st.Fresh {
			e.s.strongReadTerm.Store(0) // makes waitForLinearizableRead ask for a strong read, as it does in a new term
		}
		o.dv0 = e.dataVersion()
		idx0 := e.s.raft.LastIndex()
		req := &proto.Request{}
		for _, t := range st.Texts {
			req.Statements = append(req.Statements, &proto.Statement{Sql: t.sql(e.s.dbPath), SqlExplain: t.Explain})
		}
		eqKinds := func(rs []*proto.ExecuteQueryResponse) {
			for _, r := range rs {
				switch x := r.GetResult().(type) {
				case *proto.ExecuteQueryResponse_E:
					o.kinds = append(o.kinds, "E")
				case *proto.ExecuteQueryResponse_Q:
					if x.Q.GetError() != "" {
						o.kinds = append(o.kinds, "QErr")
					} else {
						o.kinds = append(o.kinds, "Q")
					}
				default:
					o.kinds = append(o.kinds, "Err")
				}
			}
		}
		switch st.Op {
		case "dbquery":
			_, o.callErr = e.s.db.Query(req, false)
		case "dbrequest":
			var rs []*proto.ExecuteQueryResponse
			rs, o.callErr = e.s.db.Request(req, false)
			eqKinds(rs)
		case "dbexecute":
			_, o.callErr = e.s.db.Execute(req, false)
		case "query":
			qr := &proto.QueryRequest{Request: req, Level: c17Level(st.Level)}
			var lv proto.ConsistencyLevel
			_, lv, _, o.callErr = e.s.Query(ctx, qr)
			o.upg = st.Level == "linearizable" && lv == proto.ConsistencyLevel_STRONG
		case "request":
			eqr := &proto.ExecuteQueryRequest{Request: req, Level: c17Level(st.Level)}
			var rs []*proto.ExecuteQueryResponse
			var n uint64
			rs, n, _, o.callErr = e.s.Request(ctx, eqr)
			if o.callErr == nil {
				o.nRW = int64(n)
			}
			eqKinds(rs)
			o.upg = st.Level == "linearizable" && eqr.Level == proto.ConsistencyLevel_STRONG
		case "execute":
			_, _, o.callErr = e.s.Execute(ctx, &proto.ExecuteRequest{Request: req})
		case "backup":
			o.callErr = e.runBackup(st.Backup)
		case "snapshot":
			o.callErr = e.s.Snapshot(0)
		}
		o.after = c17Dump(e.obs)
		o.dv1 = e.dataVersion()
		o.appended = e.s.raft.LastIndex() > idx0
		o.poolOK, o.poolDetail = e.poolQueryOnly()
		cur = o.after
		isReq := st.Op != "backup" && st.Op != "snapshot"
		if isReq && o.callErr != nil {
			if strings.Contains(o.callErr.Error(), "disallowed pragma") {
				o.refused = true
			} else {
				w.Emit(VCase{Input: in, Key: key, Inconcl: fmt.Sprintf("step %d (%s %s): call failed: %v", si, st.Op, st.Level, o.callErr)})
				return
			}
		}

		// ---- model step ----
		var texts []string
		for _, t := range st.Texts {
			switch {
			case t.Raw != "":
				texts = append(texts, fmt.Sprintf("TSubs false [{| sb_ro := %s; sb_eff := %s |}]", coqBool(t.RawRO), c17CoqOps(t.RawOps)))
			case t.Bad:
				texts = append(texts, "TBad")
			case len(t.Subs) == 0:
				texts = append(texts, "TEmpty")
			default:
				subs := make([]string, len(t.Subs))
				for i, s := range t.Subs {
					subs[i] = fmt.Sprintf("{| sb_ro := %s; sb_eff := %s |}", coqBool(ros[s.SQL]), c17CoqOps(s.Ops))
				}
				texts = append(texts, fmt.Sprintf("TSubs %s %s", coqBool(t.Explain), coqList(subs)))
			}
		}
		lv := map[string]string{"none": "LvNone", "weak": "LvWeak", "strong": "LvStrong", "auto": "LvAuto"}[st.Level]
		if st.Level == "linearizable" {
			lv = "(LvLinearizable " + coqBool(o.upg) + ")"
		}
		var op string
		switch {
		case o.refused:
			op = "HRefused"
		case st.Op == "dbquery":
			op = "HDbQuery " + coqList(texts)
		case st.Op == "dbrequest":
			op = "HDbRequest " + coqList(texts)
		case st.Op == "dbexecute":
			op = "HDbExecute " + coqList(texts)
		case st.Op == "query":
			op = "HQuery " + lv + " " + coqList(texts)
		case st.Op == "request":
			op = "HRequest " + lv + " " + coqList(texts)
		case st.Op == "execute":
			op = "HExecute " + coqList(texts)
		case st.Op == "backup":
			op = "HBackup " + map[string]string{"binary": "BfBinary", "sql": "BfSQL", "delete": "BfDelete"}[st.Backup.Format] + " " + coqBool(st.Backup.Vacuum)
		default:
			op = "HSnapshot"
		}
		stepsCoq = append(stepsCoq, fmt.Sprintf("(%s, {| ob_final := %s; ob_appended := %s; ob_nrw := %s; ob_pool_ok := %s |})",
			op, c17CoqTable(o.after), coqBool(o.appended), coqOpt(o.nRW >= 0, fmt.Sprint(o.nRW)), coqBool(o.poolOK)))

		// ---- the property, on this step ----
		what := fmt.Sprintf("step %d (%s %s %s)", si, st.Op, st.Level, st.Kind)
		changed := !c17Eq(o.before, o.after) || o.dv0 != o.dv1
		roHeadRwTail, writeNotFirst, special := false, false, false
		for _, t := range st.Texts {
			for i, s := range t.Subs {
				if !s.RO && len(s.Ops) > 0 && i > 0 {
					writeNotFirst = true
					if t.Subs[0].RO {
						roHeadRwTail = true
					}
				}
				up := strings.ToUpper(s.SQL)
				if strings.Contains(up, "ATTACH") || strings.Contains(up, "TEMP") || strings.Contains(up, "PRAGMA") {
					special = true
				}
			}
			if t.Raw != "" {
				special = true
			}
		}
		if writeNotFirst || special || failingBefore {
			c.Nontrivial = true
		}
		if failingBefore && (st.Op == "query" || st.Op == "dbquery" || st.Op == "request") {
			tags["read-after-failed-operation"] = true
		}
		tags["op="+st.Op] = true
		if st.Level != "" {
			tags["level="+st.Level] = true
		}
		if st.Kind != "" {
			tags["kind="+st.Kind] = true
		}
		if o.upg {
			tags["linearizable-upgraded-to-strong"] = true
		}
		if roHeadRwTail {
			tags["ro-head-rw-tail"] = true
		}
		if o.appended {
			tags["via-log"] = true
		}
		if o.refused {
			tags["refused-by-pragma-guard"] = true
		}
		if st.Op == "backup" {
			res := "ok"
			if o.callErr != nil {
				res = "failed"
			}
			tags[fmt.Sprintf("backup-%s-vacuum=%v-%s", st.Backup.Format, st.Backup.Vacuum, res)] = true
		}
		if o.refused || ((st.Op == "backup" || st.Op == "snapshot") && o.callErr != nil) {
			failingBefore = true
		}
		for _, t := range st.Texts {
			if t.Bad {
				failingBefore = true
			}
		}
		v := verdict{}
		switch st.Op {
		case "dbquery", "query":
			if changed {
				v = verdict{fmt.Sprintf("%s: query endpoint changed the database: %v -> %v (data_version %d -> %d); texts %v", what, o.before, o.after, o.dv0, o.dv1, vJSON(req.Statements)), "C17:query-endpoint-wrote"}
			}
		case "dbrequest", "request":
			// texts answered with a Q result were treated as read-only; only the others may change anything
			var nonEmpty []c17Text
			for _, t := range st.Texts {
				if t.Bad || len(t.Subs) > 0 || t.Raw != "" {
					nonEmpty = append(nonEmpty, t)
				}
			}
			if o.refused {
				if changed {
					v = verdict{fmt.Sprintf("%s: refused request changed the database: %v -> %v", what, o.before, o.after), "C17:refused-request-wrote"}
				}
			} else if len(o.kinds) == len(nonEmpty) {
				// E: the text ran as a write, all of it.  Err: it was not treated as read-only either, and an
				// error in the middle of a multi-statement text leaves what its earlier statements did.
				cands := [][]c17Row{o.before}
				allRO := true
				for i, t := range nonEmpty {
					switch o.kinds[i] {
					case "E":
						allRO = false
						for ci := range cands {
							for _, s := range t.Subs {
								cands[ci] = c17Apply(cands[ci], s.Ops)
							}
						}
					case "Err":
						if len(t.Subs) > 0 {
							allRO = false
						}
						var next [][]c17Row
						for _, cnd := range cands {
							next = append(next, cnd)
							for _, s := range t.Subs {
								cnd = c17Apply(cnd, s.Ops)
								next = append(next, cnd)
							}
						}
						cands = next
					}
				}
				want := cands[0]
				okState := false
				for _, cnd := range cands {
					if c17Eq(o.after, cnd) {
						okState = true
					}
				}
				if !okState || (allRO && o.dv0 != o.dv1) {
					sig := "C17:unified-ro-wrote"
					if roHeadRwTail {
						sig = "C17:unified-ro-head-rw-tail"
					}
					v = verdict{fmt.Sprintf("%s: statements answered as read-only (result kinds %v) changed the database: %v -> %v, expected %v; texts %v",
						what, o.kinds, o.before, o.after, want, vJSON(req.Statements)), sig}
				}
			}
		case "execute", "dbexecute":
			if o.refused && changed {
				v = verdict{fmt.Sprintf("%s: refused request changed the database: %v -> %v", what, o.before, o.after), "C17:refused-request-wrote"}
			}
		case "backup", "snapshot":
			// a backup or snapshot reorganises files (checkpoint) but never changes the logical contents
			if !c17Eq(o.before, o.after) {
				v = verdict{fmt.Sprintf("%s (err=%v) changed the database: %v -> %v", what, o.callErr, o.before, o.after), "C17:" + st.Op + "-changed-database"}
			}
		}
		// a database changes only through the log
		if !c17Eq(o.before, o.after) && !o.appended && (st.Op == "query" || st.Op == "request" || st.Op == "execute") {
			v = verdict{fmt.Sprintf("%s changed the database without a log entry: %v -> %v; texts %v", what, o.before, o.after, vJSON(req.Statements)), "C17:changed-without-log-entry"}
		}
		// the guard of the read-only pool survives every operation
		contentV := v
		lostNow := !o.poolOK && poolWasOK
		poolWasOK = o.poolOK
		if lostNow {
			v = verdict{fmt.Sprintf("%s (err=%v) left the read-only pool unprotected: %s", what, o.callErr, o.poolDetail), "C17:ro-pool-query-only-lost:" + st.Op}
		}
		if v.sig != "" {
			verdicts = append(verdicts, v)
		}
		if contentV.sig != "" && contentV.sig != v.sig {
			verdicts = append(verdicts, contentV)
		}
	}
	c.Coq = fmt.Sprintf("({| k_init := %s; k_steps := %s |})%%N", c17CoqTable(start), coqList(stepsCoq))
	for t := range tags {
		c.Tags = append(c.Tags, t)
	}
	sort.Strings(c.Tags)
	// report the first failure that is not the known finding, else the known one
	for _, v := range verdicts {
		if v.sig != "C17:unified-ro-head-rw-tail" {
			c.OracleFail, c.Sig = v.fail, v.sig
			break
		}
	}
	if c.OracleFail == "" && len(verdicts) > 0 {
		c.OracleFail, c.Sig = verdicts[0].fail, verdicts[0].sig
	}
	w.Emit(c)
	// further kinds of failure in the same history are reported as cases of their own (same input)
	seenSig := map[string]bool{c.Sig: true, "C17:unified-ro-head-rw-tail": true}
	for _, v := range verdicts {
		if !seenSig[v.sig] {
			seenSig[v.sig] = true
			w.Emit(VCase{Input: in, Key: key + "#" + v.sig, OracleFail: v.fail, Sig: v.sig})
		}
	}
	// leave a protected pool for the next case if this history damaged it
	if ok, _ := e.poolQueryOnly(); !ok && startOK {
		e.restorePool()
	}
}

// ---- generator ----

func c17GenSub(rng *rand.Rand, wantRO bool) c17Sub {
	k := int64(1 + rng.Intn(6))
	v := int64(10 + rng.Intn(90))
	if wantRO {
		ros := []string{
			"SELECT * FROM t", fmt.Sprintf("SELECT count(*) FROM t WHERE id > %d", k), "EXPLAIN SELECT * FROM t", "EXPLAIN QUERY PLAN SELECT v FROM t WHERE id = 1",
			"PRAGMA table_info(t)", "PRAGMA user_version", "WITH x AS (SELECT id FROM t) SELECT count(*) FROM x", "ATTACH DATABASE ':memory:' AS m",
			"SELECT ';'", "/* c; */ SELECT 1 -- x\n", "SELECT \"a;b\" FROM (SELECT 1 AS \"a;b\")", "PRAGMA optimize", "REINDEX",
		}
		return c17Sub{SQL: ros[rng.Intn(len(ros))], RO: true}
	}
	switch rng.Intn(12) {
	case 0, 1:
		return c17Sub{SQL: fmt.Sprintf("DELETE FROM t WHERE id = %d", k), Ops: []c17Op{{K: k, Del: true}}}
	case 2, 3:
		return c17Sub{SQL: fmt.Sprintf("INSERT OR REPLACE INTO t(id,v) VALUES(%d,%d)", k, v), Ops: []c17Op{{K: k, V: v}}}
	case 4:
		return c17Sub{SQL: fmt.Sprintf("WITH x AS (SELECT %d AS i) DELETE FROM t WHERE id IN (SELECT i FROM x)", k), Ops: []c17Op{{K: k, Del: true}}}
	case 5:
		return c17Sub{SQL: fmt.Sprintf("DELETE FROM t WHERE id = %d RETURNING v", k), Ops: []c17Op{{K: k, Del: true}}}
	case 6:
		return c17Sub{SQL: fmt.Sprintf("REPLACE INTO t(id,v) VALUES(%d,%d) RETURNING id", k, v), Ops: []c17Op{{K: k, V: v}}}
	case 7:
		u := int64(1 + rng.Intn(3))
		return c17Sub{SQL: fmt.Sprintf("CREATE TABLE IF NOT EXISTS u%d(a)", u), Ops: []c17Op{{K: 9000 + u, V: 1}}}
	case 8:
		return c17Sub{SQL: fmt.Sprintf("PRAGMA user_version = %d", k), Ops: []c17Op{{K: 8000, V: k}}}
	case 9:
		return c17Sub{SQL: "CREATE TEMP TABLE IF NOT EXISTS tt(a)"}
	case 10:
		return c17Sub{SQL: "UPDATE t SET v = v WHERE 0"}
	default:
		return c17Sub{SQL: "EXPLAIN QUERY PLAN DELETE FROM t"}
	}
}

func c17GenText(rng *rand.Rand) c17Text {
	var t c17Text
	switch p := rng.Intn(100); {
	case p < 4:
		return c17Text{} // ""
	case p < 8:
		return c17Text{Bad: true}
	case p < 25: // single read-only statement
		t.Subs = []c17Sub{c17GenSub(rng, true)}
	case p < 37: // single write
		t.Subs = []c17Sub{c17GenSub(rng, false)}
	case p < 67: // read-only head, then anything (at least one write)
		t.Subs = []c17Sub{c17GenSub(rng, true)}
		n := 1 + rng.Intn(3)
		for i := 0; i < n; i++ {
			t.Subs = append(t.Subs, c17GenSub(rng, rng.Intn(3) == 0))
		}
	case p < 80: // write head, anything after
		t.Subs = []c17Sub{c17GenSub(rng, false)}
		n := 1 + rng.Intn(3)
		for i := 0; i < n; i++ {
			t.Subs = append(t.Subs, c17GenSub(rng, rng.Intn(2) == 0))
		}
	default: // only read-only statements
		n := 2 + rng.Intn(2)
		for i := 0; i < n; i++ {
			t.Subs = append(t.Subs, c17GenSub(rng, true))
		}
	}
	// ATTACH changes connection-local state: keep at most one per text (the second would fail on the same connection)
	seenAttach := false
	for i := range t.Subs {
		if strings.HasPrefix(t.Subs[i].SQL, "ATTACH") {
			if seenAttach {
				t.Subs[i] = c17Sub{SQL: "SELECT 2", RO: true}
			}
			seenAttach = true
		}
	}
	seps := []string{"; ", ";", " ;\n", "; -- c\n", ";/* ; */ "}
	for i := range t.Subs {
		if i < len(t.Subs)-1 {
			t.Sep = append(t.Sep, seps[rng.Intn(len(seps))])
		} else if rng.Intn(3) == 0 {
			t.Sep = append(t.Sep, []string{";", " ; ", ";\n"}[rng.Intn(3)])
		}
	}
	if len(t.Subs) > 0 && strings.HasPrefix(t.Subs[0].SQL, "EXPLAIN") {
		t.Explain = rng.Intn(2) == 0
	}
	return t
}

func c17GenInit(rng *rand.Rand) []c17Row {
	var init []c17Row
	for id := int64(1); id <= 6; id++ {
		if rng.Intn(2) == 0 {
			init = append(init, c17Row{id, int64(100 + rng.Intn(100))})
		}
	}
	return init
}

var c17Endpoints = []struct{ ep, lv string }{
	{"dbquery", ""}, {"dbrequest", ""}, {"dbexecute", ""},
	{"query", "none"}, {"query", "weak"}, {"query", "linearizable"}, {"query", "strong"}, {"query", "auto"},
	{"request", "none"}, {"request", "weak"}, {"request", "linearizable"}, {"request", "strong"}, {"request", "auto"},
	{"execute", ""},
}

var c17Levels = []string{"none", "weak", "linearizable", "strong", "auto"}

// texts the breaking-PRAGMA guard must refuse (C15); sent to a Store endpoint, the pool must stay protected
var c17BreakingPragmas = []string{
	"PRAGMA query_only=0", "pragma query_only = off", "PRAGMA main.query_only(0)", "SELECT 1; PRAGMA query_only=0",
	"/* c */ PRAGMA query_only=false", "PRAGMA \"query_only\"=0", "PRAGMA journal_mode=DELETE", "PRAGMA wal_autocheckpoint=1000",
	"PRAGMA synchronous=FULL; SELECT 1", "EXPLAIN PRAGMA query_only=0", "PRAGMA wal_checkpoint(TRUNCATE)",
}

func c17GenRequestTexts(rng *rand.Rand) []c17Text {
	var texts []c17Text
	for j, m := 0, 1+rng.Intn(3); j < m; j++ {
		texts = append(texts, c17GenText(rng))
	}
	// ATTACH ':memory:' changes connection-local state and a second ATTACH on the same connection fails: keep it
	// to the last statement of a text (so that a failure cannot cut other statements off), once per request
	seenAttach := false
	for ti := range texts {
		for si := range texts[ti].Subs {
			if strings.HasPrefix(texts[ti].Subs[si].SQL, "ATTACH") {
				if seenAttach || si != len(texts[ti].Subs)-1 {
					texts[ti].Subs[si] = c17Sub{SQL: "SELECT 3", RO: true}
				} else {
					seenAttach = true
				}
			}
		}
	}
	return texts
}

func c17GenBackup(rng *rand.Rand) *c17Backup {
	b := &c17Backup{Format: []string{"binary", "binary", "sql", "delete"}[rng.Intn(4)], Vacuum: rng.Intn(2) == 0, Compress: rng.Intn(3) == 0}
	b.Dest = []string{"file", "prefilled", "prefilled", "buffer", "failwriter", "deadwriter"}[rng.Intn(6)]
	return b
}

// reads that try to write through a second name for the node's own file, its schema, or the temp schema
func c17GenAttachSelf(rng *rand.Rand) []c17Text {
	k, v := int64(1+rng.Intn(6)), int64(10+rng.Intn(90))
	alias := fmt.Sprintf("x%d", rng.Intn(4))
	attach := c17Text{Raw: "ATTACH DATABASE '$DB' AS " + alias, RawRO: true}
	if rng.Intn(4) == 0 {
		attach.Raw = "ATTACH DATABASE 'file:$DB?mode=rwc' AS " + alias
	}
	var second c17Text
	switch rng.Intn(5) {
	case 0, 1:
		second = c17Text{Raw: fmt.Sprintf("INSERT OR REPLACE INTO %s.t(id,v) VALUES(%d,%d)", alias, k, v), RawOps: []c17Op{{K: k, V: v}}}
	case 2:
		second = c17Text{Raw: fmt.Sprintf("DELETE FROM %s.t WHERE id = %d", alias, k), RawOps: []c17Op{{K: k, Del: true}}}
	case 3:
		second = c17Text{Raw: fmt.Sprintf("CREATE TABLE IF NOT EXISTS %s.u1(a)", alias), RawOps: []c17Op{{K: 9001, V: 1}}}
	default:
		second = c17Text{Raw: fmt.Sprintf("PRAGMA %s.user_version = %d", alias, k), RawOps: []c17Op{{K: 8000, V: k}}}
	}
	texts := []c17Text{attach, second}
	if rng.Intn(3) == 0 {
		texts = append(texts, c17Text{Raw: "CREATE TEMP TABLE IF NOT EXISTS c17tmp(a)"}, c17Text{Raw: "INSERT INTO temp.c17tmp VALUES(1)"})
	}
	// pooled connections live on: detach again (SQLite allows 10 attached databases per connection)
	return append(texts, c17Text{Raw: "DETACH DATABASE " + alias, RawRO: true})
}

func c17GenStep(rng *rand.Rand) c17Step {
	switch p := rng.Intn(100); {
	case p < 52:
		ep := c17Endpoints[rng.Intn(len(c17Endpoints))]
		return c17Step{Op: ep.ep, Level: ep.lv, Fresh: ep.lv == "linearizable" && rng.Intn(2) == 0, Texts: c17GenRequestTexts(rng), Kind: "probe"}
	case p < 66:
		return c17Step{Op: "backup", Backup: c17GenBackup(rng)}
	case p < 71:
		return c17Step{Op: "snapshot"}
	case p < 81:
		st := c17Step{Op: []string{"query", "request", "execute"}[rng.Intn(3)], Kind: "breaking-pragma"}
		if st.Op != "execute" {
			st.Level = c17Levels[rng.Intn(len(c17Levels))]
		}
		st.Texts = []c17Text{{Raw: c17BreakingPragmas[rng.Intn(len(c17BreakingPragmas))], RawRO: true}}
		if rng.Intn(2) == 0 {
			st.Texts = append([]c17Text{{Raw: "SELECT 1", RawRO: true}}, st.Texts...)
		}
		return st
	default:
		st := c17Step{Op: "query", Level: c17Levels[rng.Intn(len(c17Levels))], Texts: c17GenAttachSelf(rng), Kind: "attach-self"}
		if rng.Intn(6) == 0 {
			st.Op, st.Level = "dbquery", ""
		}
		st.Fresh = st.Level == "linearizable" && rng.Intn(2) == 0
		return st
	}
}

func c17Corpus() []c17Input {
	sel := c17Sub{SQL: "SELECT 1", RO: true}
	del := c17Sub{SQL: "DELETE FROM t WHERE id = 1", Ops: []c17Op{{K: 1, Del: true}}}
	put := c17Sub{SQL: "INSERT OR REPLACE INTO t(id,v) VALUES(5,55)", Ops: []c17Op{{K: 5, V: 55}}}
	expl := c17Sub{SQL: "EXPLAIN SELECT 1", RO: true}
	reqs := [][]c17Text{
		{{Subs: []c17Sub{sel, del}}},                        // the known defect shape
		{{Subs: []c17Sub{del, sel}}},                        // write head: a write, and treated as one
		{{Subs: []c17Sub{sel, del, sel}}},                   // only the last statement of a query text is stepped
		{{Subs: []c17Sub{expl, del}, Explain: true}},        // counted read-only because of SqlExplain
		{{Subs: []c17Sub{sel}}, {Subs: []c17Sub{put}}},      // mixed request: goes through the log at every level
		{{Subs: []c17Sub{sel, del}}, {Subs: []c17Sub{put}}}, // read-only head + write tail next to a real write
		{{Subs: []c17Sub{{SQL: "PRAGMA user_version", RO: true}, {SQL: "PRAGMA user_version = 3", Ops: []c17Op{{K: 8000, V: 3}}}}}},
		{{Bad: true}, {Subs: []c17Sub{sel}}},
		{{}, {Subs: []c17Sub{sel}}},
	}
	init := []c17Row{{1, 101}, {2, 102}, {3, 103}}
	var out []c17Input
	// every hand-picked request at every endpoint, one history per request
	for _, texts := range reqs {
		in := c17Input{Init: init}
		for _, ep := range c17Endpoints {
			in.Steps = append(in.Steps, c17Step{Op: ep.ep, Level: ep.lv, Texts: texts, Kind: "probe"})
		}
		out = append(out, in)
	}
	// after a FAILED backup of each kind (and a successful one, a snapshot, a refused PRAGMA): reads that try to write
	// through another name for the node's own file, at every level
	attachProbe := func(i int) []c17Text {
		a := fmt.Sprintf("c%d", i)
		return []c17Text{{Raw: "ATTACH DATABASE '$DB' AS " + a, RawRO: true},
			{Raw: fmt.Sprintf("INSERT OR REPLACE INTO %s.t(id,v) VALUES(7,%d)", a, 70+i), RawOps: []c17Op{{K: 7, V: int64(70 + i)}}},
			{Raw: "DETACH DATABASE " + a, RawRO: true}}
	}
	for _, b := range []c17Backup{
		{Format: "binary", Vacuum: true, Dest: "prefilled"}, {Format: "binary", Vacuum: true, Compress: true, Dest: "failwriter"},
		{Format: "delete", Vacuum: true, Dest: "failwriter"}, {Format: "delete", Dest: "prefilled"}, {Format: "sql", Dest: "failwriter"},
		{Format: "binary", Dest: "failwriter"}, {Format: "sql", Dest: "deadwriter"}, {Format: "delete", Dest: "deadwriter"}, {Format: "sql", Vacuum: true, Dest: "buffer"}, {Format: "binary", Vacuum: true, Dest: "file"},
	} {
		b := b
		in := c17Input{Init: init, Steps: []c17Step{
			{Op: "execute", Texts: []c17Text{{Subs: []c17Sub{put}}}, Kind: "probe"},
			{Op: "backup", Backup: &b},
		}}
		for i, lv := range c17Levels {
			in.Steps = append(in.Steps, c17Step{Op: "query", Level: lv, Texts: attachProbe(i), Kind: "attach-self"})
		}
		in.Steps = append(in.Steps,
			c17Step{Op: "snapshot"},
			c17Step{Op: "query", Level: "none", Texts: []c17Text{{Raw: "PRAGMA query_only=0", RawRO: true}}, Kind: "breaking-pragma"},
			c17Step{Op: "dbquery", Texts: attachProbe(9), Kind: "attach-self"},
			c17Step{Op: "request", Level: "none", Texts: []c17Text{{Subs: []c17Sub{sel}}}, Kind: "probe"})
		out = append(out, in)
	}
	return out
}

func TestVerif_C17(t *testing.T) {
	w := vOpen()
	defer w.Close()
	e := c17Open(t)
	defer e.Close()
	if raw := vReplayInput(); raw != nil {
		var in c17Input
		if err := json.Unmarshal(raw, &in); err != nil {
			t.Fatal(err)
		}
		c17Run(w, e, in)
		return
	}
	for _, in := range c17Corpus() {
		c17Run(w, e, in)
	}
	rng := vRand()
	n := vN(110, 2500)
	for i := 0; i < n; i++ {
		in := c17Input{Init: c17GenInit(rng)}
		for j, m := 0, 5+rng.Intn(8); j < m; j++ {
			in.Steps = append(in.Steps, c17GenStep(rng))
		}
		c17Run(w, e, in)
	}
}
