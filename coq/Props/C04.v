(* C04 — property theorems only. *)
From Coq Require Import List NArith.
From RQ Require Import Model.C04 Proofs.C04.

(* in every reachable state: the newest snapshot restores, staging ++ live WAL is exactly the difference
   between it and the live database (whenever an incremental snapshot may come next), and replaying the
   log entries after it gives the live database *)
Theorem C04_chain_invariant : forall ops, chain_ok (run ops).
Proof. exact chain_invariant. Qed.
Print Assumptions C04_chain_invariant.

(* for every history: newest snapshot + log suffix = the live database = the state applied by the history *)
Theorem C04_rebuild : forall ops,
  exists d, rebuilt (run ops) = Some d
    /\ cells_eq d (spec_state ops)
    /\ cells_eq (live (run ops)) (spec_state ops).
Proof. exact rebuild. Qed.
Print Assumptions C04_rebuild.

(* the two dump vectors check_case compares coincide in every reachable state *)
Theorem C04_rebuild_dump : forall ops, o_rebuilt (observe (run ops) 0) = o_live (observe (run ops) 0).
Proof. exact rebuild_dump. Qed.
Print Assumptions C04_rebuild_dump.

(* a snapshot attempt whose checkpoint is busy (full or incremental) leaves the node exactly as it was: no new
   segment, and every segment staged by earlier unpersisted attempts is still there *)
Theorem C04_blocked_attempt_keeps_staging : forall s,
  fst (step s (OSnap PBlocked)) = s /\ staging (fst (step s (OSnap PBlocked))) = staging s.
Proof. exact blocked_keeps_staging. Qed.
Print Assumptions C04_blocked_attempt_keeps_staging.

(* the code as it was before the repair (staging directory never emptied) violates the property *)
Theorem C04_unfixed_refuted :
  exists ops d, rebuilt (run_gen false ops) = Some d /\ get d 1%N <> get (spec_state ops) 1%N.
Proof. exact unfixed_refuted. Qed.
Print Assumptions C04_unfixed_refuted.
