package db

// C13 driver.  Generated requests run through the real db.Execute / db.Request on a scratch
// database.  The reference is an *interactive SQLite session* on a second database holding the
// same rows: plain database/sql calls, one statement at a time (BEGIN first when the request is
// a transaction), recording for every statement whether it prepared, whether it failed, the rows
// it changed and the contents/transaction state afterwards.  From that session
//   (a) each statement gets its class for the Coq model (Model.C13), and
//   (b) the Go oracle below evaluates the property text directly on what the real call did:
//       all-or-nothing, stop at the first failure in a transaction, one result per executed
//       non-empty statement reporting that statement's own outcome, rollback-on-error.

import (
	"context"
	"database/sql"
	"encoding/json"
	"fmt"
	"math/rand"
	"os"
	"path/filepath"
	"strings"
	"testing"

	"github.com/mattn/go-sqlite3"
	command "github.com/rqlite/rqlite/v10/command/proto"
)

type c13Stmt struct {
	SQL  string `json:"sql"`
	FQ   bool   `json:"fq,omitempty"`   // Statement.ForceQuery (what the HTTP layer sets for RETURNING)
	RO   bool   `json:"ro,omitempty"`   // the generator knows the statement is read-only for SQLite (SELECT, BEGIN/COMMIT/ROLLBACK)
	Kind string `json:"kind,omitempty"` // generator category, for the histogram
}

type c13Row struct {
	K int64 `json:"k"`
	V int64 `json:"v"`
}

type c13Input struct {
	Unified bool      `json:"unified"`
	Tx      bool      `json:"tx"`
	ROE     bool      `json:"roe"`
	Init    []c13Row  `json:"init"` // key < 1000: t(id,v); key >= 1000: c(id-1000, pid)
	Stmts   []c13Stmt `json:"stmts"`
}

const c13Schema = `CREATE TABLE t (id INTEGER PRIMARY KEY, v INTEGER NOT NULL UNIQUE);
CREATE TABLE c (id INTEGER PRIMARY KEY, pid INTEGER NOT NULL REFERENCES t(id) DEFERRABLE INITIALLY DEFERRED);`

type c13Env struct {
	dir       string
	ref, real *DB
}

func c13Open(t *testing.T) *c13Env {
	dir, err := os.MkdirTemp("", "c13-verif")
	if err != nil {
		t.Fatal(err)
	}
	e := &c13Env{dir: dir}
	for i, p := range []**DB{&e.ref, &e.real} {
		d, err := Open(filepath.Join(dir, fmt.Sprintf("db%d.sqlite", i)), true, true)
		if err != nil {
			t.Fatal(err)
		}
		if _, err := d.rwDB.Exec(c13Schema); err != nil {
			t.Fatal(err)
		}
		*p = d
	}
	return e
}

func (e *c13Env) Close() {
	e.ref.Close()
	e.real.Close()
	os.RemoveAll(e.dir)
}

func c13Reset(d *DB, init []c13Row) error {
	d.rwDB.Exec("ROLLBACK")
	if _, err := d.rwDB.Exec("DELETE FROM c; DELETE FROM t"); err != nil {
		return err
	}
	for _, r := range init {
		var err error
		if r.K < 1000 {
			_, err = d.rwDB.Exec("INSERT INTO t(id,v) VALUES(?,?)", r.K, r.V)
		}
		if err != nil {
			return err
		}
	}
	for _, r := range init {
		if r.K >= 1000 {
			if _, err := d.rwDB.Exec("INSERT INTO c(id,pid) VALUES(?,?)", r.K-1000, r.V); err != nil {
				return err
			}
		}
	}
	return nil
}

func c13Dump(ctx context.Context, conn *sql.Conn) []c13Row {
	var out []c13Row
	for _, q := range []string{"SELECT id, v FROM t ORDER BY id", "SELECT id+1000, pid FROM c ORDER BY id"} {
		rows, err := conn.QueryContext(ctx, q)
		if err != nil {
			panic(err)
		}
		for rows.Next() {
			var r c13Row
			if err := rows.Scan(&r.K, &r.V); err != nil {
				panic(err)
			}
			out = append(out, r)
		}
		if err := rows.Err(); err != nil {
			panic(err)
		}
		rows.Close()
	}
	return out
}

func c13AutoCommit(conn *sql.Conn) bool {
	ac := true
	conn.Raw(func(dc any) error {
		ac = dc.(*sqlite3.SQLiteConn).AutoCommit()
		return nil
	})
	return ac
}

func c13Equal(a, b []c13Row) bool {
	if len(a) != len(b) {
		return false
	}
	for i := range a {
		if a[i] != b[i] {
			return false
		}
	}
	return true
}

type c13Op struct {
	K   int64
	Del bool
	V   int64
}

func c13Diff(before, after []c13Row) []c13Op {
	var ops []c13Op
	i, j := 0, 0
	for i < len(before) || j < len(after) {
		switch {
		case j >= len(after) || (i < len(before) && before[i].K < after[j].K):
			ops = append(ops, c13Op{K: before[i].K, Del: true})
			i++
		case i >= len(before) || after[j].K < before[i].K:
			ops = append(ops, c13Op{K: after[j].K, V: after[j].V})
			j++
		default:
			if before[i].V != after[j].V {
				ops = append(ops, c13Op{K: after[j].K, V: after[j].V})
			}
			i++
			j++
		}
	}
	return ops
}

// what the reference session recorded for one statement
type c13Ref struct {
	empty, prepFail, fail bool
	errText               string
	n                     int64 // rows returned (ro or fq) / rows affected
	ops                   []c13Op
	txctl                 string
	vis, com              []c13Row // contents visible / committed after the statement
	inTx                  bool
}

// the interactive reference session
func c13Reference(d *DB, in c13Input) (refs []c13Ref, commitOK bool) {
	ctx := context.Background()
	conn, err := d.rwDB.Conn(ctx)
	if err != nil {
		panic(err)
	}
	defer conn.Close()
	defer conn.ExecContext(ctx, "ROLLBACK")
	if in.Tx {
		if _, err := conn.ExecContext(ctx, "BEGIN"); err != nil {
			panic(err)
		}
	}
	com := c13Dump(ctx, conn)
	anyFail := false
	for _, s := range in.Stmts {
		var r c13Ref
		before := c13Dump(ctx, conn)
		switch {
		case s.SQL == "":
			r.empty = true
		default:
			perr := conn.Raw(func(dc any) error {
				st, err := dc.(*sqlite3.SQLiteConn).Prepare(s.SQL)
				if err != nil {
					return err
				}
				return st.Close()
			})
			if perr != nil {
				r.prepFail, r.fail, r.errText = true, true, perr.Error()
				break
			}
			if s.RO || s.FQ {
				rows, err := conn.QueryContext(ctx, s.SQL)
				if err == nil {
					for rows.Next() {
						r.n++
					}
					err = rows.Err()
					rows.Close()
				}
				if err != nil {
					r.fail, r.errText, r.n = true, err.Error(), 0
				}
			} else {
				res, err := conn.ExecContext(ctx, s.SQL)
				if err != nil {
					r.fail, r.errText = true, err.Error()
				} else {
					r.n, _ = res.RowsAffected()
				}
			}
		}
		r.vis = c13Dump(ctx, conn)
		r.ops = c13Diff(before, r.vis)
		r.inTx = !c13AutoCommit(conn)
		if !r.inTx {
			com = r.vis
		}
		r.com = com
		if !r.fail && !r.empty {
			switch strings.ToUpper(strings.TrimSpace(s.SQL)) {
			case "BEGIN", "COMMIT", "ROLLBACK":
				r.txctl = strings.ToUpper(strings.TrimSpace(s.SQL))
			}
		}
		if r.fail {
			anyFail = true
		}
		refs = append(refs, r)
	}
	commitOK = true
	if in.Tx && !anyFail {
		if _, err := conn.ExecContext(ctx, "COMMIT"); err != nil {
			commitOK = false
		}
	}
	return refs, commitOK
}

type c13Res struct {
	kind string // E, Q, Err, QErr, nil
	n    int64
	err  string
}

type c13Obs struct {
	results []c13Res
	reqErr  string
	vis     []c13Row
	inTx    bool
	com     []c13Row
}

func c13Real(d *DB, in c13Input) c13Obs {
	req := &command.Request{Transaction: in.Tx, RollbackOnError: in.ROE}
	for _, s := range in.Stmts {
		req.Statements = append(req.Statements, &command.Statement{Sql: s.SQL, ForceQuery: s.FQ})
	}
	var resp []*command.ExecuteQueryResponse
	var err error
	if in.Unified {
		resp, err = d.Request(req, false)
	} else {
		resp, err = d.Execute(req, false)
	}
	var o c13Obs
	if err != nil {
		o.reqErr = err.Error()
	}
	for _, r := range resp {
		switch x := r.GetResult().(type) {
		case *command.ExecuteQueryResponse_E:
			o.results = append(o.results, c13Res{kind: "E", n: x.E.RowsAffected})
		case *command.ExecuteQueryResponse_Q:
			if x.Q.GetError() != "" {
				o.results = append(o.results, c13Res{kind: "QErr", err: x.Q.GetError()})
			} else {
				o.results = append(o.results, c13Res{kind: "Q", n: int64(len(x.Q.GetValues()))})
			}
		case *command.ExecuteQueryResponse_Error:
			o.results = append(o.results, c13Res{kind: "Err", err: x.Error})
		default:
			o.results = append(o.results, c13Res{kind: "nil"})
		}
	}
	ctx := context.Background()
	conn, cerr := d.rwDB.Conn(ctx)
	if cerr != nil {
		panic(cerr)
	}
	defer conn.Close()
	o.inTx = !c13AutoCommit(conn)
	o.vis = c13Dump(ctx, conn)
	conn.ExecContext(ctx, "ROLLBACK")
	o.com = c13Dump(ctx, conn)
	return o
}

// ---- Gallina rendering ----

func c13CoqTable(rows []c13Row) string {
	it := make([]string, len(rows))
	for i, r := range rows {
		it[i] = fmt.Sprintf("(%d, %d)", r.K, r.V)
	}
	return coqList(it)
}

func c13CoqOps(ops []c13Op) string {
	it := make([]string, len(ops))
	for i, o := range ops {
		if o.Del {
			it[i] = fmt.Sprintf("(%d, None)", o.K)
		} else {
			it[i] = fmt.Sprintf("(%d, Some %d)", o.K, o.V)
		}
	}
	return coqList(it)
}

func c13Class(s c13Stmt, r c13Ref) string {
	switch {
	case r.empty:
		return "SEmpty"
	case r.prepFail:
		return "SFailPrepare"
	case r.fail && s.RO:
		return "SQueryFail"
	case r.fail:
		if len(r.ops) == 0 {
			return "(SFailExec None)"
		}
		return "(SFailExec (Some " + c13CoqOps(r.ops) + "))"
	case r.txctl == "BEGIN":
		return "SBegin"
	case r.txctl == "COMMIT":
		return "SCommit"
	case r.txctl == "ROLLBACK":
		return "SRollback"
	case s.RO:
		return "SQuery"
	default:
		return "(SOk " + c13CoqOps(r.ops) + ")"
	}
}

func c13Coq(in c13Input, refs []c13Ref, commitOK bool, o c13Obs) string {
	ss := make([]string, len(in.Stmts))
	for i, s := range in.Stmts {
		ss[i] = fmt.Sprintf("{| s_cls := %s; s_fq := %s; s_n := %d |}", c13Class(s, refs[i]), coqBool(s.FQ), refs[i].n)
	}
	// projection: the row count an E result carries for a read-only statement is the connection's
	// previous change counter (driver artefact) and is not compared
	var ne []int
	for i, r := range refs {
		if !r.empty {
			ne = append(ne, i)
		}
	}
	rs := make([]string, len(o.results))
	for i, r := range o.results {
		n := r.n
		if r.kind == "E" && i < len(ne) && in.Stmts[ne[i]].RO {
			n = 0
		}
		switch r.kind {
		case "E":
			rs[i] = fmt.Sprintf("RE %d", n)
		case "Q":
			rs[i] = fmt.Sprintf("RQ %d", n)
		case "QErr":
			rs[i] = "RQErr"
		default:
			rs[i] = "RErr"
		}
	}
	// numbers are N literals; the whole term is put in N scope (not the file: bin/check parses ids printed as 0%N)
	return fmt.Sprintf("({| k_unified := %s; k_req := {| r_tx := %s; r_roe := %s; r_stmts := %s |}; k_init := %s; k_commit_ok := %s; "+
		"k_results := %s; k_err := %s; k_visible := %s; k_in_tx := %s; k_committed := %s |})%%N",
		coqBool(in.Unified), coqBool(in.Tx), coqBool(in.ROE), coqList(ss), c13CoqTable(in.Init), coqBool(commitOK),
		coqList(rs), coqBool(o.reqErr != ""), c13CoqTable(o.vis), coqBool(o.inTx), c13CoqTable(o.com))
}

// ---- the property, evaluated on the observations ----

func c13Oracle(in c13Input, refs []c13Ref, commitOK bool, o c13Obs) (fail, sig string) {
	path := "execute"
	if in.Unified {
		path = "unified"
	}
	var ne []int
	firstFail := -1
	for i, r := range refs {
		if r.empty {
			continue
		}
		ne = append(ne, i)
		if r.fail && firstFail < 0 {
			firstFail = i
		}
	}
	executed := ne
	stops := in.Tx || in.ROE
	if stops && firstFail >= 0 {
		executed = nil
		for _, i := range ne {
			executed = append(executed, i)
			if i == firstFail {
				break
			}
		}
	}
	last := func() (vis, com []c13Row, inTx bool) {
		if len(refs) == 0 {
			return in.Init, in.Init, false
		}
		r := refs[len(refs)-1]
		return r.vis, r.com, r.inTx
	}
	// state
	switch {
	case in.Tx:
		if o.inTx {
			return fmt.Sprintf("%s: transaction request left the connection inside a transaction", path), "C13:tx-left-open:" + path
		}
		if firstFail >= 0 {
			if !c13Equal(o.com, in.Init) {
				kind := "exec"
				if refs[firstFail].prepFail {
					kind = "prepare"
				}
				return fmt.Sprintf("%s: transaction with a failing statement (#%d %q: %s) changed the database: before %v after %v",
					path, firstFail, in.Stmts[firstFail].SQL, refs[firstFail].errText, in.Init, o.com), "C13:tx-partial-commit:" + path + ":" + kind + "-failure"
			}
		} else if commitOK {
			vis, _, _ := last()
			if !c13Equal(o.com, vis) {
				return fmt.Sprintf("%s: transaction without failure did not apply all statements: want %v got %v", path, vis, o.com), "C13:tx-not-all-applied:" + path
			}
			if o.reqErr != "" {
				return fmt.Sprintf("%s: request error %q although everything committed", path, o.reqErr), "C13:spurious-request-error:" + path
			}
		} else {
			if !c13Equal(o.com, in.Init) {
				return fmt.Sprintf("%s: COMMIT fails in the reference session but the database changed: before %v after %v", path, in.Init, o.com), "C13:tx-partial-commit:" + path + ":commit-failure"
			}
			if o.reqErr == "" {
				return fmt.Sprintf("%s: COMMIT failed but the request reported no error", path), "C13:commit-failure-not-reported:" + path
			}
		}
	case in.ROE && firstFail >= 0:
		// no effect of the failed transaction: what was committed when the failing statement ended
		// (the contents at the client's BEGIN if one was open) is all that remains, nothing left open
		want := refs[firstFail].com
		if o.inTx {
			return fmt.Sprintf("%s: rollback-on-error request left a transaction open after the failure of #%d", path, firstFail), "C13:rollback-on-error-ignored:" + path
		}
		if !c13Equal(o.com, want) || !c13Equal(o.vis, want) {
			return fmt.Sprintf("%s: rollback-on-error: after the failure of #%d want %v, got visible %v committed %v", path, firstFail, want, o.vis, o.com), "C13:rollback-on-error-left-effect:" + path
		}
	default:
		vis, com, inTx := last()
		if !c13Equal(o.vis, vis) || !c13Equal(o.com, com) || o.inTx != inTx {
			return fmt.Sprintf("%s: non-transaction request: want visible %v committed %v intx %v, got %v %v %v", path, vis, com, inTx, o.vis, o.com, o.inTx), "C13:state-differs-from-session:" + path
		}
	}
	// results
	if len(o.results) != len(executed) {
		what := "C13:result-count:"
		if len(o.results) > len(executed) && stops {
			what = "C13:continued-after-failure:"
		}
		return fmt.Sprintf("%s: %d results for %d executed non-empty statements (first failure at #%d)", path, len(o.results), len(executed), firstFail), what + path
	}
	for j, i := range executed {
		r, ob := refs[i], o.results[j]
		obFail := ob.kind == "Err" || ob.kind == "QErr"
		if ob.kind == "nil" || obFail != r.fail {
			return fmt.Sprintf("%s: result %d (%s) does not report the outcome of statement #%d %q (failed=%v %s)", path, j, ob.kind, i, in.Stmts[i].SQL, r.fail, r.errText), "C13:result-outcome:" + path
		}
		if r.fail && ob.err != r.errText {
			return fmt.Sprintf("%s: result %d error %q, statement #%d fails with %q", path, j, ob.err, i, r.errText), "C13:result-error-text:" + path
		}
		if !r.fail && !(ob.kind == "E" && in.Stmts[i].RO) && ob.n != r.n {
			return fmt.Sprintf("%s: result %d reports %d rows, statement #%d %q has %d", path, j, ob.n, i, in.Stmts[i].SQL, r.n), "C13:result-rows:" + path
		}
	}
	return "", ""
}

func c13Run(w *vWriter, e *c13Env, in c13Input) {
	key := vJSON(in)
	if err := c13Reset(e.ref, in.Init); err != nil {
		w.Emit(VCase{Input: in, Key: key, Inconcl: "reset: " + err.Error()})
		return
	}
	if err := c13Reset(e.real, in.Init); err != nil {
		w.Emit(VCase{Input: in, Key: key, Inconcl: "reset: " + err.Error()})
		return
	}
	refs, commitOK := c13Reference(e.ref, in)
	obs := c13Real(e.real, in)
	c := VCase{Input: in, Key: key, Coq: c13Coq(in, refs, commitOK, obs)}
	nne, firstFail, lastNE := 0, -1, -1
	for i, r := range refs {
		if r.empty {
			continue
		}
		nne++
		lastNE = i
		if r.fail && firstFail < 0 {
			firstFail = i
		}
	}
	c.Nontrivial = nne >= 2 && firstFail >= 0 && firstFail != lastNE
	path := "execute"
	if in.Unified {
		path = "unified"
	}
	c.Tags = []string{"path=" + path, fmt.Sprintf("tx=%v", in.Tx), fmt.Sprintf("roe=%v", in.ROE)}
	seen := map[string]bool{}
	for i, s := range in.Stmts {
		k := "stmt=" + s.Kind
		cl := c13Class(s, refs[i])
		if j := strings.IndexAny(cl, " ["); j > 0 {
			cl = strings.Trim(cl[:j], "(")
		}
		for _, t := range []string{k, "class=" + cl} {
			if !seen[t] {
				seen[t] = true
				c.Tags = append(c.Tags, t)
			}
		}
	}
	if in.Tx && firstFail < 0 && !commitOK {
		c.Tags = append(c.Tags, "commit-fails")
	}
	c.OracleFail, c.Sig = c13Oracle(in, refs, commitOK, obs)
	w.Emit(c)
}

// ---- generator ----

func c13GenStmt(rng *rand.Rand, tx bool) c13Stmt {
	k := func() int64 { return int64(1 + rng.Intn(9)) }
	v := func() int64 { return int64(1 + rng.Intn(20)) }
	switch p := rng.Intn(100); {
	case p < 20:
		return c13Stmt{SQL: fmt.Sprintf("INSERT INTO t(id,v) VALUES(%d,%d)", k(), v()), Kind: "insert"}
	case p < 28:
		return c13Stmt{SQL: fmt.Sprintf("INSERT INTO t(id,v) VALUES(%d,%d),(%d,%d),(%d,%d)", k(), v(), k(), v(), k(), v()), Kind: "insert-multirow"}
	case p < 34:
		return c13Stmt{SQL: fmt.Sprintf("UPDATE t SET v = v + %d WHERE id >= %d", 1+rng.Intn(3), k()), Kind: "update-range"}
	case p < 39:
		return c13Stmt{SQL: fmt.Sprintf("UPDATE t SET v = %d WHERE id <= %d", v(), k()), Kind: "update-unique"}
	case p < 45:
		return c13Stmt{SQL: fmt.Sprintf("DELETE FROM t WHERE id = %d", k()), Kind: "delete"}
	case p < 51:
		return c13Stmt{SQL: fmt.Sprintf("INSERT INTO c(id,pid) VALUES(%d,%d)", k(), k()), Kind: "insert-child"}
	case p < 54:
		return c13Stmt{SQL: fmt.Sprintf("DELETE FROM c WHERE id = %d", k()), Kind: "delete-child"}
	case p < 62:
		bad := []string{"INSERT INTO t(id,v) VALUES(1,", "SELEC 1", "INSERT INTO nosuch(id) VALUES(1)", "UPDATE t SET nocol = 1", "DELETE FRM t", "INSERT INTO t(id,v) VALUES(1,2,3)"}
		return c13Stmt{SQL: bad[rng.Intn(len(bad))], Kind: "prepare-error"}
	case p < 66:
		return c13Stmt{SQL: fmt.Sprintf("INSERT INTO t(id,v) VALUES(%d,NULL)", k()), Kind: "insert-null"}
	case p < 74:
		fq := rng.Intn(4) != 0
		if rng.Intn(3) == 0 {
			return c13Stmt{SQL: fmt.Sprintf("DELETE FROM t WHERE id >= %d RETURNING v", k()), FQ: fq, Kind: "delete-returning"}
		}
		return c13Stmt{SQL: fmt.Sprintf("INSERT INTO t(id,v) VALUES(%d,%d),(%d,%d) RETURNING id, v", k(), v(), k(), v()), FQ: fq, Kind: "insert-returning"}
	case p < 82:
		qs := []string{"SELECT id, v FROM t", fmt.Sprintf("SELECT count(*) FROM t WHERE v > %d", v()), "SELECT id FROM c ORDER BY id"}
		return c13Stmt{SQL: qs[rng.Intn(len(qs))], RO: true, FQ: rng.Intn(5) == 0, Kind: "query"}
	case p < 85:
		return c13Stmt{SQL: "SELECT * FROM nosuch", RO: true, Kind: "query-prepare-error"}
	case p < 88:
		// fails while running, and only when t has a row
		return c13Stmt{SQL: "SELECT abs(-9223372036854775807 - 1) FROM t", RO: true, Kind: "query-runtime-error"}
	case p < 93:
		return c13Stmt{SQL: "", Kind: "empty"}
	case p < 97:
		return c13Stmt{SQL: fmt.Sprintf("INSERT INTO t(id,v) VALUES(%d,%d); INSERT INTO t(id,v) VALUES(%d,%d)", k(), v(), k(), v()), Kind: "two-statements-in-one-text"}
	default:
		if tx {
			return c13Stmt{SQL: fmt.Sprintf("INSERT INTO t(id,v) VALUES(%d,%d)", k(), v()), Kind: "insert"}
		}
		tc := []string{"BEGIN", "COMMIT", "ROLLBACK"}
		return c13Stmt{SQL: tc[rng.Intn(3)], RO: true, Kind: "txctl"}
	}
}

func c13GenInit(rng *rand.Rand) []c13Row {
	var init []c13Row
	usedV := map[int64]bool{}
	var ids []int64
	for id := int64(1); id <= 9; id++ {
		if rng.Intn(3) == 0 {
			v := int64(1 + rng.Intn(20))
			for usedV[v] {
				v = int64(1 + rng.Intn(20))
			}
			usedV[v] = true
			init = append(init, c13Row{K: id, V: v})
			ids = append(ids, id)
		}
	}
	if len(ids) > 0 {
		for id := int64(1); id <= 9; id++ {
			if rng.Intn(6) == 0 {
				init = append(init, c13Row{K: 1000 + id, V: ids[rng.Intn(len(ids))]})
			}
		}
	}
	return init
}

func c13Gen(rng *rand.Rand) c13Input {
	in := c13Input{Unified: rng.Intn(2) == 0, Tx: rng.Intn(2) == 0, Init: c13GenInit(rng)}
	if !in.Tx {
		in.ROE = rng.Intn(2) == 0
	} else {
		in.ROE = rng.Intn(4) == 0
	}
	n := 1 + rng.Intn(8)
	// a third of the requests are mostly valid: fresh keys and values, so that long requests without
	// any failure (and with exactly one) are frequent
	careful := rng.Intn(3) == 0
	for i := 0; i < n; i++ {
		if careful && rng.Intn(8) != 0 {
			switch rng.Intn(6) {
			case 0:
				in.Stmts = append(in.Stmts, c13Stmt{SQL: fmt.Sprintf("UPDATE t SET v = v + 1000 WHERE id = %d", 1+rng.Intn(9)), Kind: "update-range"})
			case 1:
				in.Stmts = append(in.Stmts, c13Stmt{SQL: "SELECT count(*) FROM t", RO: true, Kind: "query"})
			case 2:
				in.Stmts = append(in.Stmts, c13Stmt{SQL: fmt.Sprintf("INSERT INTO t(id,v) VALUES(%d,%d) RETURNING id", 20+i, 200+i), FQ: true, Kind: "insert-returning"})
			default:
				in.Stmts = append(in.Stmts, c13Stmt{SQL: fmt.Sprintf("INSERT INTO t(id,v) VALUES(%d,%d)", 20+i, 200+i), Kind: "insert"})
			}
			continue
		}
		in.Stmts = append(in.Stmts, c13GenStmt(rng, in.Tx))
	}
	// a client-opened transaction around (part of) the request, the shape a SQL dump has
	if !in.Tx && rng.Intn(3) == 0 {
		in.Stmts[0] = c13Stmt{SQL: "BEGIN", RO: true, Kind: "txctl"}
		if rng.Intn(2) == 0 {
			in.Stmts = append(in.Stmts, c13Stmt{SQL: "COMMIT", RO: true, Kind: "txctl"})
		}
	}
	return in
}

func c13Corpus() []c13Input {
	ins := func(k, v int) c13Stmt {
		return c13Stmt{SQL: fmt.Sprintf("INSERT INTO t(id,v) VALUES(%d,%d)", k, v), Kind: "insert"}
	}
	bad := c13Stmt{SQL: "INSERT INTO t(id,v) VALUES(1,", Kind: "prepare-error"}
	dup := c13Stmt{SQL: "INSERT INTO t(id,v) VALUES(7,70),(8,80),(1,5)", Kind: "insert-multirow"}
	begin := c13Stmt{SQL: "BEGIN", RO: true, Kind: "txctl"}
	commit := c13Stmt{SQL: "COMMIT", RO: true, Kind: "txctl"}
	init := []c13Row{{1, 10}, {2, 11}}
	var out []c13Input
	for _, uni := range []bool{false, true} {
		out = append(out,
			// the shape of the defect fixed for C13: prepare error in the middle of a transaction
			c13Input{Unified: uni, Tx: true, Init: init, Stmts: []c13Stmt{ins(3, 30), bad, ins(4, 40)}},
			c13Input{Unified: uni, Tx: true, Init: init, Stmts: []c13Stmt{ins(3, 30), dup, ins(4, 40)}},
			c13Input{Unified: uni, Tx: false, Init: init, Stmts: []c13Stmt{ins(3, 30), bad, {SQL: ""}, dup, ins(4, 40)}},
			c13Input{Unified: uni, Tx: true, Init: init, Stmts: []c13Stmt{ins(3, 30), {SQL: ""}, {SQL: "SELECT id, v FROM t", RO: true, Kind: "query"}, ins(4, 40)}},
			// deferred foreign key: every statement succeeds, COMMIT fails
			c13Input{Unified: uni, Tx: true, Init: init, Stmts: []c13Stmt{ins(3, 30), {SQL: "INSERT INTO c(id,pid) VALUES(1,9)", Kind: "insert-child"}}},
			// ... and is repaired before COMMIT
			c13Input{Unified: uni, Tx: true, Init: init, Stmts: []c13Stmt{{SQL: "INSERT INTO c(id,pid) VALUES(1,9)", Kind: "insert-child"}, ins(9, 90)}},
			// client transaction + rollback on error (SQL dump load)
			c13Input{Unified: uni, ROE: true, Init: init, Stmts: []c13Stmt{ins(5, 50), begin, ins(3, 30), dup, ins(4, 40), commit}},
			c13Input{Unified: uni, ROE: true, Init: init, Stmts: []c13Stmt{begin, ins(3, 30), bad, commit}},
			c13Input{Unified: uni, ROE: false, Init: init, Stmts: []c13Stmt{begin, ins(3, 30), bad, commit}},
			c13Input{Unified: uni, ROE: true, Init: init, Stmts: []c13Stmt{begin, ins(3, 30), {SQL: "INSERT INTO c(id,pid) VALUES(1,9)", Kind: "insert-child"}, commit, ins(4, 40)}},
		)
	}
	return out
}

func TestVerif_C13(t *testing.T) {
	w := vOpen()
	defer w.Close()
	e := c13Open(t)
	defer e.Close()
	if raw := vReplayInput(); raw != nil {
		var in c13Input
		if err := json.Unmarshal(raw, &in); err != nil {
			t.Fatal(err)
		}
		c13Run(w, e, in)
		return
	}
	for _, in := range c13Corpus() {
		c13Run(w, e, in)
	}
	rng := vRand()
	n := vN(1500, 40000)
	for i := 0; i < n; i++ {
		c13Run(w, e, c13Gen(rng))
	}
}
