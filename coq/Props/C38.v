(* C38 — property theorems only. *)
From Coq Require Import List NArith Bool.
From RQ Require Import Model.C02_ReadIndex Model.C38 Proofs.C38.

Theorem C38_completes : forall t n,
  wait_lin (healthy_obs t n (n_fsm (drained n))) = LinOk
  /\ n_log (drained n) = n_log n /\ n_commit (drained n) = n_commit n.
Proof. exact completes. Qed.
Print Assumptions C38_completes.

Theorem C38_completes_at_once : forall t n,
  nocmd (n_todo n) -> wait_lin (healthy_obs t n (n_fsm n)) = LinOk.
Proof. exact completes_at_once. Qed.
Print Assumptions C38_completes_at_once.

Theorem C38_completes_after_any_history : forall t es,
  let n := run empty_node es in
  wait_lin (healthy_obs t n (n_fsm (drained n))) = LinOk /\ n_log (drained n) = n_log n.
Proof. exact completes_after_any_history. Qed.
Print Assumptions C38_completes_after_any_history.

(* the wait of the tree before the fix (subscribe to the commit index itself) *)
Theorem C38_wait_on_commit_index_blocks :
  exists n, forall k, old_lin_wait (healthy_obs 1 n (n_fsm (fsm_run k n))) = LinTimeout.
Proof. exact old_wait_blocks. Qed.
Print Assumptions C38_wait_on_commit_index_blocks.
