(* C36 — specification (from the property text) and proofs about Model.C36. *)
From Coq Require Import List ZArith Bool Lia.
From RQ Require Import Model.C36.
Import ListNotations.
Open Scope Z_scope.

(* ---- vocabulary of the property text ---- *)

(* the configured range: the delay table as New keeps it (an empty table means "no delay") *)
Definition table (c : config) : list Z := match c_delays c with [] => [0] | l => l end.
Definition top (c : config) : Z := Z.of_nat (length (table c)) - 1.
(* the configured release rate (at least one level per release) *)
Definition rate (c : config) : Z := Z.max (c_rate c) 1.

(* durations given by the caller are not negative *)
Definition wf_ctx (x : ctx) : Prop := match x with CtxNever => True | CtxEnds a _ => 0 <= a end.
Definition wf_op (o : op) : Prop :=
  match o with OpSleep dt => 0 <= dt | OpDelay x => wf_ctx x | _ => True end.
Definition wf_cfg (c : config) : Prop := Forall (fun d => 0 <= d) (c_delays c).

(* operations that are not pressure signals: time passing, or a request being delayed *)
Definition passive (o : op) : Prop := match o with OpSleep _ | OpDelay _ => True | _ => False end.

(* time until the context ends; None = never *)
Definition ctx_left (x : ctx) : option Z := match x with CtxNever => None | CtxEnds a _ => Some a end.

Ltac unf := unfold step, signal, release, reset, advance, touch, observe, set_level, set_timer, set_now, max_level in *.
Ltac fin := repeat split; intros; auto; try discriminate; try congruence; try lia.
Ltac brk :=
  repeat match goal with
         | |- context [if ?b then _ else _] => destruct b eqn:?
         | |- context [match ?x with _ => _ end] => destruct x eqn:?
         end.

(* ---- the static part of a state never changes ---- *)

Lemma step_static s o :
  s_tbl (fst (step s o)) = s_tbl s /\ s_rate (fst (step s o)) = s_rate s /\ s_idle (fst (step s o)) = s_idle s.
Proof. destruct o; unf; brk; cbn; auto. Qed.

Lemma run_static ops : forall s,
  s_tbl (run s ops) = s_tbl s /\ s_rate (run s ops) = s_rate s /\ s_idle (run s ops) = s_idle s.
Proof.
  induction ops as [|o ops IH]; intros s; cbn [run fold_left]; [auto|].
  destruct (IH (fst (step s o))) as (A & B & C). destruct (step_static s o) as (A' & B' & C').
  unfold run in *. rewrite A, B, C. auto.
Qed.

Lemma new_static c : s_tbl (new c) = table c /\ s_rate (new c) = rate c /\ s_idle (new c) = c_idle c.
Proof.
  unfold new, table, rate; cbn. repeat split.
  - destruct (c_delays c); reflexivity.
  - destruct (c_rate c <? 1) eqn:E; lia.
Qed.

(* ---- range invariant ---- *)

Definition in_range (s : state) : Prop :=
  1 <= s_rate s /\ 0 <= s_level s <= max_level s.

Lemma new_in_range c : in_range (new c).
Proof.
  destruct (new_static c) as (A & B & _). unfold in_range, max_level. rewrite A, B.
  unfold rate, table. cbn [s_level new]. destruct (c_delays c); cbn [length]; lia.
Qed.

Lemma step_in_range s o : in_range s -> in_range (fst (step s o)).
Proof.
  unfold in_range. intros (Hr & Hl). destruct o; unf; brk; cbn in *; lia.
Qed.

Lemma run_in_range ops : forall s, in_range s -> in_range (run s ops).
Proof.
  induction ops as [|o ops IH]; intros s H; [exact H|].
  cbn [run fold_left]. apply IH. apply step_in_range. exact H.
Qed.

Lemma cur_delay_in_range s : in_range s -> exists d, cur_delay s = Some d /\ In d (s_tbl s).
Proof.
  intros (_ & Hl). unfold cur_delay, max_level in *.
  destruct (s_level s <? 0) eqn:E; [lia|].
  destruct (nth_error (s_tbl s) (Z.to_nat (s_level s))) as [d|] eqn:N.
  - exists d. split; [reflexivity|]. eapply nth_error_In; eauto.
  - apply nth_error_None in N. lia.
Qed.

(* ---- the three level rules ---- *)

Lemma signal_level s : in_range s -> s_level (fst (step s OpSignal)) = Z.min (s_level s + 1) (max_level s).
Proof. unfold in_range. intros (_ & Hl). unf; brk; cbn in *; lia. Qed.

Lemma release_level s : in_range s -> s_level (fst (step s OpRelease)) = Z.max (s_level s - s_rate s) 0.
Proof. unfold in_range. intros (_ & Hl). unf; brk; cbn in *; lia. Qed.

Lemma reset_level s : s_level (fst (step s OpReset)) = 0.
Proof. reflexivity. Qed.

(* ---- timer invariant ---- *)

Definition timer_ok (s : state) : Prop :=
  (s_idle s <= 0 -> s_timer s = None) /\
  (s_timer s = None -> 0 < s_idle s -> s_level s = 0) /\
  (forall D, s_timer s = Some D -> s_now s < D <= s_now s + s_idle s).

Definition tbl_ok (s : state) : Prop := Forall (fun d => 0 <= d) (s_tbl s).

Lemma new_timer_ok c : timer_ok (new c).
Proof. unfold timer_ok, new; cbn. fin. Qed.

Lemma new_tbl_ok c : wf_cfg c -> tbl_ok (new c).
Proof.
  unfold wf_cfg, tbl_ok, new; cbn. intros H. destruct (c_delays c); [repeat constructor; lia|exact H].
Qed.

Lemma cur_delay_nonneg s d : tbl_ok s -> cur_delay s = Some d -> 0 <= d.
Proof.
  unfold tbl_ok, cur_delay. intros H E. destruct (s_level s <? 0); [discriminate|].
  apply nth_error_In in E. rewrite Forall_forall in H. auto.
Qed.

Lemma delay_result_bounds d x e err :
  0 <= d -> wf_ctx x -> delay_result d x = (e, err) ->
  0 <= e <= d /\ (forall a, ctx_left x = Some a -> e <= a).
Proof.
  unfold delay_result. intros Hd Hx E. destruct (d =? 0) eqn:Z0.
  - inversion E; subst. split; [lia|]. intros a Ha. destruct x; cbn in *; inversion Ha; subst; lia.
  - destruct x as [|a k]; cbn in *.
    + inversion E; subst. split; [lia|discriminate].
    + destruct (a <? d) eqn:L; inversion E; subst; (split; [lia|]); intros a' Ha; inversion Ha; subst; lia.
Qed.

Lemma advance_timer_ok s dt : 0 <= dt -> timer_ok s -> timer_ok (advance s dt).
Proof.
  unfold timer_ok. intros Hdt (A & B & C). unf. cbn.
  destruct (s_timer s) as [D|] eqn:T.
  - specialize (C D eq_refl). destruct (D <=? s_now s + dt) eqn:F; cbn; rewrite ?T.
    + fin.
    + fin. match goal with H : Some _ = Some _ |- _ => inversion H; subst end. lia.
      match goal with H : Some _ = Some _ |- _ => inversion H; subst end. lia.
  - cbn. fin.
Qed.

Lemma step_timer_ok s o : wf_op o -> tbl_ok s -> timer_ok s -> timer_ok (fst (step s o)).
Proof.
  intros Ho Ht H. destruct o.
  - destruct H as (A & B & C). unfold timer_ok. unf. brk; cbn in *; repeat split; intros; try discriminate; try lia;
      try (match goal with H : Some _ = Some _ |- _ => inversion H; subst end); try lia; auto;
      try (match goal with H : s_timer _ = Some _ |- _ => apply C in H; lia end).
  - destruct H as (A & B & C). unfold timer_ok. unf. brk; cbn in *; repeat split; intros; try discriminate; try lia;
      try (match goal with H : Some _ = Some _ |- _ => inversion H; subst end); try lia; auto;
      try (match goal with H : s_timer _ = Some _ |- _ => apply C in H; lia end).
  - unfold timer_ok. cbn. fin.
  - cbn [step fst]. apply advance_timer_ok; auto.
  - cbn [step]. destruct (cur_delay s) as [d|] eqn:E; cbn [fst]; [|exact H].
    apply advance_timer_ok; [|exact H].
    destruct (delay_result d c) as [e err] eqn:R. cbn [fst].
    eapply delay_result_bounds in R; eauto; [lia|eapply cur_delay_nonneg; eauto].
Qed.

Lemma step_tbl_ok s o : tbl_ok s -> tbl_ok (fst (step s o)).
Proof. unfold tbl_ok. destruct (step_static s o) as (A & _). rewrite A. auto. Qed.

Lemma run_timer_ok ops : forall s, Forall wf_op ops -> tbl_ok s -> timer_ok s -> timer_ok (run s ops) /\ tbl_ok (run s ops).
Proof.
  induction ops as [|o ops IH]; intros s Hw Ht H; [split; assumption|].
  inversion Hw; subst. cbn [run fold_left]. apply IH; auto using step_tbl_ok, step_timer_ok.
Qed.

(* ---- idle: with no signal for the idle timeout, the level is back at zero ---- *)

(* one passive step: the timer is left as it was, or it has fired *)
Lemma step_passive_timer s o : passive o ->
  let s' := fst (step s o) in
  (s_timer s' = s_timer s /\ s_level s' = s_level s) \/
  (s_timer s' = None /\ s_level s' = 0).
Proof.
  intros Hp. destruct o; cbn in Hp; try contradiction.
  - unf. cbn. brk; cbn; auto.
  - cbn [step]. destruct (cur_delay s) as [d|]; cbn [fst]; [|auto].
    unf. cbn. brk; cbn; auto.
Qed.

Lemma passive_run_zero ops : forall s X,
  Forall wf_op ops -> Forall passive ops -> tbl_ok s -> timer_ok s -> 0 < s_idle s ->
  (forall D, s_timer s = Some D -> D <= X) -> X <= s_now (run s ops) ->
  s_level (run s ops) = 0.
Proof.
  induction ops as [|o ops IH]; intros s X Hw Hp Ht Hk Hi HD HX.
  - cbn in *. destruct Hk as (_ & B & C). destruct (s_timer s) as [D|] eqn:T.
    + specialize (C D eq_refl). specialize (HD D eq_refl). lia.
    + auto.
  - inversion Hw; subst. inversion Hp; subst. cbn [run fold_left].
    destruct (step_static s o) as (_ & _ & SI).
    apply (IH (fst (step s o)) X); auto using step_tbl_ok, step_timer_ok.
    + rewrite SI. exact Hi.
    + intros D E. destruct (step_passive_timer s o H3) as [(A & _)|(A & _)].
      * apply HD. rewrite <- A. exact E.
      * cbv zeta in A. congruence.
Qed.

Lemma step_passive_none s o : passive o -> s_timer s = None ->
  s_timer (fst (step s o)) = None /\ s_level (fst (step s o)) = s_level s.
Proof.
  intros Hp HT. destruct o; cbn in Hp; try contradiction.
  - unf. cbn. rewrite HT. cbn. auto.
  - cbn [step]. destruct (cur_delay s); cbn [fst]; [|auto].
    unf. cbn. rewrite HT. cbn. auto.
Qed.

Lemma passive_no_timer quiet : forall s, Forall passive quiet -> s_timer s = None ->
  s_level (run s quiet) = s_level s.
Proof.
  induction quiet as [|o q IH]; intros s Hp HT; [reflexivity|].
  inversion Hp; subst. cbn [run fold_left].
  destruct (step_passive_none s o H1 HT) as (A & B).
  unfold run in IH. rewrite IH; auto.
Qed.

(* ---- Delay ---- *)

Lemma delay_early d a k : 0 <= a -> a < d -> delay_result d (CtxEnds a k) = (a, ctx_err k).
Proof.
  intros Ha H. unfold delay_result. destruct (d =? 0) eqn:Z0; [lia|].
  destruct (a <? d) eqn:L; [reflexivity|lia].
Qed.

Lemma delay_completes d x e : delay_result d x = (e, 0) -> e = d.
Proof.
  unfold delay_result. destruct (d =? 0) eqn:Z0; intros E.
  - inversion E. lia.
  - destruct x as [|a k]; [inversion E; reflexivity|].
    destruct (a <? d); [destruct k; cbn in E; inversion E | inversion E; reflexivity].
Qed.

(* ======================= statements used by Props/C36.v ======================= *)

(* every state reached from New by any operation sequence *)
Definition reach (c : config) (ops : list op) : state := run (new c) ops.

Lemma reach_in_range c ops : in_range (reach c ops).
Proof. apply run_in_range, new_in_range. Qed.

Lemma reach_static c ops :
  s_tbl (reach c ops) = table c /\ s_rate (reach c ops) = rate c /\ s_idle (reach c ops) = c_idle c.
Proof.
  destruct (run_static ops (new c)) as (A & B & C). destruct (new_static c) as (A' & B' & C').
  unfold reach. rewrite A, B, C. auto.
Qed.

Lemma reach_max c ops : max_level (reach c ops) = top c.
Proof. unfold max_level, top. destruct (reach_static c ops) as (A & _). rewrite A. reflexivity. Qed.

Theorem level_in_range : forall c ops,
  0 <= s_level (reach c ops) <= top c /\
  exists d, cur_delay (reach c ops) = Some d /\ In d (table c).
Proof.
  intros c ops. pose proof (reach_in_range c ops) as H. split.
  - rewrite <- (reach_max c ops). apply H.
  - destruct (cur_delay_in_range _ H) as (d & E & I). exists d. split; [exact E|].
    destruct (reach_static c ops) as (A & _). rewrite <- A. exact I.
Qed.

Theorem signal_rule : forall c ops,
  s_level (reach c (ops ++ [OpSignal])) = Z.min (s_level (reach c ops) + 1) (top c).
Proof.
  intros c ops. unfold reach, run. rewrite fold_left_app. cbn [fold_left].
  fold (run (new c) ops). fold (reach c ops).
  rewrite signal_level by apply reach_in_range. rewrite reach_max. reflexivity.
Qed.

Theorem release_rule : forall c ops,
  s_level (reach c (ops ++ [OpRelease])) = Z.max (s_level (reach c ops) - rate c) 0.
Proof.
  intros c ops. unfold reach, run. rewrite fold_left_app. cbn [fold_left].
  fold (run (new c) ops). fold (reach c ops).
  rewrite release_level by apply reach_in_range.
  destruct (reach_static c ops) as (_ & B & _). rewrite B. reflexivity.
Qed.

Theorem reset_rule : forall c ops, s_level (reach c (ops ++ [OpReset])) = 0.
Proof.
  intros c ops. unfold reach, run. rewrite fold_left_app. reflexivity.
Qed.

(* after any history, once the idle timeout has passed with no Signal/Release/Reset in
   between (only time passing and requests being delayed), the level is zero *)
Theorem idle_returns_to_zero : forall c ops quiet,
  wf_cfg c -> Forall wf_op ops -> Forall wf_op quiet -> Forall passive quiet ->
  0 < c_idle c ->
  s_now (reach c ops) + c_idle c <= s_now (reach c (ops ++ quiet)) ->
  s_level (reach c (ops ++ quiet)) = 0.
Proof.
  intros c ops quiet Hc Hw Hq Hp Hi Hn.
  unfold reach, run in *. rewrite fold_left_app in *. fold (run (new c) ops) in *.
  fold (run (run (new c) ops) quiet) in *.
  destruct (run_timer_ok ops (new c) Hw (new_tbl_ok c Hc) (new_timer_ok c)) as (Hk & Ht).
  destruct (reach_static c ops) as (_ & _ & SI). unfold reach in SI.
  apply (passive_run_zero quiet (run (new c) ops) (s_now (run (new c) ops) + c_idle c)); auto.
  - rewrite SI. exact Hi.
  - intros D E. destruct Hk as (_ & _ & C). specialize (C D E). rewrite SI in C. lia.
Qed.

(* without an idle timeout (idleTimeout <= 0) time alone never changes the level *)
Theorem no_timer_no_decay : forall c ops quiet,
  c_idle c <= 0 -> Forall wf_op ops -> wf_cfg c -> Forall wf_op quiet -> Forall passive quiet ->
  s_level (reach c (ops ++ quiet)) = s_level (reach c ops).
Proof.
  intros c ops quiet Hi Hw Hc Hq Hp.
  unfold reach, run. rewrite fold_left_app. fold (run (new c) ops).
  fold (run (run (new c) ops) quiet).
  destruct (run_timer_ok ops (new c) Hw (new_tbl_ok c Hc) (new_timer_ok c)) as (Hk & Ht).
  destruct (reach_static c ops) as (_ & _ & SI). unfold reach in SI.
  assert (HT : s_timer (run (new c) ops) = None) by (apply Hk; rewrite SI; exact Hi).
  apply passive_no_timer; assumption.
Qed.

(* a delayed request: what Delay does in any reachable state *)
Theorem delay_bounded : forall c ops x,
  wf_cfg c -> wf_ctx x ->
  exists d e err,
    cur_delay (reach c ops) = Some d /\ In d (table c) /\
    snd (step (reach c ops) (OpDelay x)) =
      {| o_level := s_level (fst (step (reach c ops) (OpDelay x)));
         o_delay := cur_delay (fst (step (reach c ops) (OpDelay x)));
         o_ret := Some (e, err) |} /\
    0 <= e <= d /\ (forall a, ctx_left x = Some a -> e <= a) /\ (err = 0 -> e = d).
Proof.
  intros c ops x Hc Hx.
  destruct (level_in_range c ops) as (_ & d & E & I).
  destruct (delay_result d x) as [e err] eqn:R.
  exists d, e, err. split; [exact E|]. split; [exact I|].
  assert (Hd : 0 <= d).
  { unfold wf_cfg, table in *. destruct (c_delays c) eqn:L.
    - destruct I as [<-|[]]. lia.
    - rewrite Forall_forall in Hc. auto. }
  destruct (delay_result_bounds d x e err Hd Hx R) as (B1 & B2).
  split.
  - cbn [step]. rewrite E. cbn [fst snd]. rewrite R. reflexivity.
  - split; [exact B1|]. split; [exact B2|]. intros ->. eapply delay_completes; eauto.
Qed.

Theorem delay_returns_early_on_cancel : forall c ops a k d,
  0 <= a -> cur_delay (reach c ops) = Some d -> a < d ->
  o_ret (snd (step (reach c ops) (OpDelay (CtxEnds a k)))) = Some (a, ctx_err k) /\ ctx_err k <> 0.
Proof.
  intros c ops a k d Ha E L. cbn [step]. rewrite E. cbn [snd observe o_ret].
  rewrite delay_early by assumption. split; [reflexivity|destruct k; discriminate].
Qed.

(* every observation made along a run is in range (this is what check_case compares) *)
Theorem run_obs_in_range : forall c ops o,
  In o (run_obs (new c) ops) ->
  0 <= o_level o <= top c /\ exists d, o_delay o = Some d /\ In d (table c).
Proof.
  intros c ops o.
  assert (G : forall ops pre, In o (run_obs (reach c pre) ops) ->
              0 <= o_level o <= top c /\ exists d, o_delay o = Some d /\ In d (table c)).
  { clear ops. induction ops as [|p ops IH]; intros pre H; [destruct H|].
    cbn [run_obs] in H. destruct H as [H|H].
    - assert (S1 : fst (step (reach c pre) p) = reach c (pre ++ [p])).
      { unfold reach, run. rewrite fold_left_app. reflexivity. }
      assert (O : snd (step (reach c pre) p) = observe (reach c (pre ++ [p])) (o_ret (snd (step (reach c pre) p)))).
      { rewrite <- S1. destruct p; cbn [step]; try reflexivity.
        destruct (cur_delay (reach c pre)); reflexivity. }
      rewrite O in H. subst o. cbn [observe o_level o_delay]. apply level_in_range.
    - apply (IH (pre ++ [p])).
      replace (reach c (pre ++ [p])) with (fst (step (reach c pre) p)); [exact H|].
      unfold reach, run. rewrite fold_left_app. reflexivity. }
  apply (G ops []).
Qed.

(* ---- concrete instances ---- *)

Definition ex_cfg := {| c_delays := [0; 100000; 200000; 500000]; c_rate := 2; c_idle := 30000000 |}.

Example ex_levels :
  map o_level (run_obs (new ex_cfg) [OpSignal; OpSignal; OpSignal; OpSignal; OpRelease; OpRelease; OpSignal; OpSleep 30000000])
  = [1; 2; 3; 3; 1; 0; 1; 0].
Proof. vm_compute. reflexivity. Qed.

Example ex_idle : s_level (reach ex_cfg ([OpSignal; OpSignal] ++ [OpSleep 10000000; OpDelay CtxNever; OpSleep 20000000])) = 0.
Proof. vm_compute. reflexivity. Qed.

Example ex_delay_early :
  o_ret (snd (step (reach ex_cfg [OpSignal; OpSignal]) (OpDelay (CtxEnds 5000 true)))) = Some (5000, 2).
Proof. vm_compute. reflexivity. Qed.

Example ex_delay_full :
  o_ret (snd (step (reach ex_cfg [OpSignal; OpSignal]) (OpDelay (CtxEnds 900000 false)))) = Some (200000, 0).
Proof. vm_compute. reflexivity. Qed.
