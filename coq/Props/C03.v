(* C03 — property theorems only. *)
From Coq Require Import List Arith.
From RQ Require Import Model.C03 Proofs.C03.

(* every history, every crash index: the restarted node holds exactly the entries of its durable log, once
   each and in order (so every acknowledged write, no double apply), whichever start-up path it takes *)
Theorem C03_crash_safe : forall h k, crash_safe_at (crashed true h k).
Proof. exact crash_safe. Qed.
Print Assumptions C03_crash_safe.

(* the same for every interleaving of the micro-steps, not only those of well-formed histories *)
Theorem C03_crash_safe_any_schedule : forall ms, crash_safe_at (exec true ms init).
Proof. exact crash_safe_any. Qed.
Print Assumptions C03_crash_safe_any_schedule.

(* fingerprint matching the file and naming the newest snapshot => the file holds the state at that snapshot *)
Theorem C03_fingerprint_invariant : forall h k,
  let s := crashed true h k in
  forall i c l, snaps s = (i, c) :: l -> fast_path s i = true -> dbc s = seqN i /\ c = seqN i.
Proof. exact fingerprint_invariant. Qed.
Print Assumptions C03_fingerprint_invariant.

(* the code before the repair (fingerprint not tied to a snapshot): both crash windows violate the property *)
Theorem C03_unfixed_refuted :
  content (recovered false witness_fp 17) = (1 :: 2 :: 3 :: 2 :: 3 :: nil)
  /\ content (recovered false witness_install 12) = (1 :: nil) /\ n (crashed false witness_install 12) = 4.
Proof. exact unfixed_refuted. Qed.
Print Assumptions C03_unfixed_refuted.
