(* C15 — proofs, part 2: the guard model (Model/C15.v, from the Go code) flags every text that the
   SQLite reading model (Model/C15_Sqlite.v, from SQLite's lexical rules and grammar) says has
   an effect on a critical setting.  Part 1 (token level) is Proofs/C15_Token.v. *)
From Coq Require Import List NArith Bool String Lia ZifyBool ZifyNat ZifyN Arith.
From RQ Require Import Model.C15_Sqlite Model.C15 Proofs.C15_Token.
Import ListNotations.
Local Open Scope N_scope.

(* ---------- names and keywords ---------- *)

Lemma bytes_eqb_eq a b : bytes_eqb a b = true <-> a = b.
Proof.
  revert b. induction a as [|x a IH]; intros [|y b]; cbn; try (split; congruence).
  rewrite andb_true_iff, N.eqb_eq, IH. split; [intros [-> ->]; reflexivity|intros E; injection E; auto].
Qed.

Definition crit (n : bytes) : bool := match set_effect n with [] => false | _ => true end.

Definition name_facts (o : option bool) (n : bytes) : Prop :=
  match o with
  | Some true => True
  | Some false => bare_effect n = []
  | None => bare_effect n = [] /\ set_effect n = []
  end.

Definition five (x : bytes) : list bool :=
  map (fun s => bytes_eqb x (bytes_of_string s))
      ["journal_mode"; "wal_autocheckpoint"; "synchronous"; "query_only"; "wal_checkpoint"]%string.

Lemma lookup_five x :
  match map_lookup breaking_pragmas x with
  | Some true => True
  | Some false => bytes_eqb x (bytes_of_string "wal_checkpoint") = false
  | None => five x = [false; false; false; false; false]
  end.
Proof.
  cbn [map_lookup breaking_pragmas].
  destruct (bytes_eqb (bytes_of_string "journal_mode") x) eqn:E1;
    [apply bytes_eqb_eq in E1; subst x; vm_compute; reflexivity|].
  destruct (bytes_eqb (bytes_of_string "wal_autocheckpoint") x) eqn:E2;
    [apply bytes_eqb_eq in E2; subst x; vm_compute; reflexivity|].
  destruct (bytes_eqb (bytes_of_string "wal_checkpoint") x) eqn:E3; [exact I|].
  destruct (bytes_eqb (bytes_of_string "synchronous") x) eqn:E4;
    [apply bytes_eqb_eq in E4; subst x; vm_compute; reflexivity|].
  destruct (bytes_eqb (bytes_of_string "query_only") x) eqn:E5;
    [apply bytes_eqb_eq in E5; subst x; vm_compute; reflexivity|].
  unfold five. cbn [map].
  repeat match goal with
         | H : bytes_eqb ?a x = false |- context [bytes_eqb x ?a] =>
           replace (bytes_eqb x a) with false
             by (symmetry; destruct (bytes_eqb x a) eqn:E; [apply bytes_eqb_eq in E; subst x; vm_compute in H; discriminate|reflexivity]);
           clear H
         end.
  reflexivity.
Qed.

Lemma effects_of_five n :
  (bytes_eqb (map to_lower n) (bytes_of_string "wal_checkpoint") = false -> bare_effect n = [])
  /\ (five (map to_lower n) = [false; false; false; false; false] -> set_effect n = []).
Proof.
  unfold bare_effect, set_effect, ieq, five. cbn [map]. split.
  - intros ->. reflexivity.
  - intros H. injection H as -> -> -> -> ->. reflexivity.
Qed.

(* unquoted names: the guard looks the lower-cased token up *)
Lemma lookup_word n : name_facts (map_lookup breaking_pragmas (map to_lower n)) n.
Proof.
  pose proof (lookup_five (map to_lower n)) as H. destruct (effects_of_five n) as [Hb Hs].
  unfold name_facts. destruct (map_lookup breaking_pragmas (map to_lower n)) as [[|]|]; auto.
  split; [|auto]. apply Hb. unfold five in H. cbn [map] in H. injection H. auto.
Qed.

(* quoted names: the guard looks up the raw bytes between the quotes, SQLite dequotes them *)
Lemma dequote_in q raw : In q raw -> In q (dequote q raw).
Proof.
  revert raw. fix IH 1. intros [|c r] H; [destruct H|]. cbn [dequote].
  destruct (N.eqb_spec c q) as [->|Hne].
  - destruct r as [|c2 r2]; [left; reflexivity|]. destruct (c2 =? q); left; reflexivity.
  - destruct H as [H|H]; [congruence|]. right. apply IH, H.
Qed.
Lemma dequote_id q raw : ~ In q raw -> dequote q raw = raw.
Proof.
  induction raw as [|c r IH]; intros H; [reflexivity|]. cbn [dequote].
  destruct (N.eqb_spec c q) as [->|Hne]; [exfalso; apply H; left; reflexivity|].
  f_equal. apply IH. intro Hin. apply H. right. exact Hin.
Qed.

Lemma quoted_same q raw name :
  (quote_cond q = true \/ q = 91) ->
  forallb (fun c => negb (c =? 39) && negb (c =? 34) && negb (c =? 96)) name = true ->
  bytes_eqb (map to_lower (name_of_quoted q raw)) name = true ->
  bytes_eqb (map to_lower raw) name = true.
Proof.
  intros Hq Hname H. unfold name_of_quoted in H.
  destruct (N.eqb_spec q 91) as [->|H91]; [exact H|]. destruct Hq as [Hq|Hq]; [|contradiction].
  destruct (in_dec N.eq_dec q raw) as [Hin|Hnin]; [|rewrite dequote_id in H by assumption; exact H].
  exfalso. apply bytes_eqb_eq in H. apply (dequote_in q raw) in Hin.
  apply (in_map to_lower) in Hin. rewrite H in Hin.
  rewrite forallb_forall in Hname. specialize (Hname _ Hin).
  unfold quote_cond in Hq. apply orb_true_iff in Hq as [Hq|Hq]; [apply orb_true_iff in Hq as [Hq|Hq]|];
    apply N.eqb_eq in Hq; subst q; vm_compute in Hname; discriminate.
Qed.

Lemma lookup_quoted q raw :
  (quote_cond q = true \/ q = 91) ->
  name_facts (map_lookup breaking_pragmas (map to_lower raw)) (name_of_quoted q raw).
Proof.
  intro Hq. pose proof (lookup_five (map to_lower raw)) as H.
  destruct (effects_of_five (name_of_quoted q raw)) as [Hb Hs].
  assert (T : forall name, forallb (fun c => negb (c =? 39) && negb (c =? 34) && negb (c =? 96)) name = true ->
              bytes_eqb (map to_lower raw) name = false ->
              bytes_eqb (map to_lower (name_of_quoted q raw)) name = false).
  { intros name Hn Hf. destruct (bytes_eqb (map to_lower (name_of_quoted q raw)) name) eqn:E; [|reflexivity].
    rewrite (quoted_same q raw name Hq Hn E) in Hf. discriminate. }
  unfold name_facts. destruct (map_lookup breaking_pragmas (map to_lower raw)) as [[|]|]; [exact I| |].
  - apply Hb, T; [vm_compute; reflexivity|exact H].
  - unfold five in H. cbn [map] in H. injection H as H1 H2 H3 H4 H5. split.
    + apply Hb, T; [vm_compute; reflexivity|exact H5].
    + apply Hs. unfold five. cbn [map].
      assert (Q : forall s, forallb (fun c => negb (c =? 39) && negb (c =? 34) && negb (c =? 96)) (bytes_of_string s) = true ->
                  bytes_eqb (map to_lower raw) (bytes_of_string s) = false ->
                  bytes_eqb (map to_lower (name_of_quoted q raw)) (bytes_of_string s) = false) by (intros; apply T; assumption).
      rewrite (Q "journal_mode"%string eq_refl H1), (Q "wal_autocheckpoint"%string eq_refl H2),
        (Q "synchronous"%string eq_refl H3), (Q "query_only"%string eq_refl H4), (Q "wal_checkpoint"%string eq_refl H5).
      reflexivity.
Qed.

Lemma ieq_true w kw : ieq w kw = true -> map to_lower w = bytes_of_string kw.
Proof. unfold ieq. apply bytes_eqb_eq. Qed.

Lemma kw_cases w :
  let e := ieq w "explain" in let q := ieq w "query" in let p := ieq w "plan" in let g := ieq w "pragma" in
  [e; q; p; g] = [true; false; false; false] \/ [e; q; p; g] = [false; true; false; false]
  \/ [e; q; p; g] = [false; false; true; false] \/ [e; q; p; g] = [false; false; false; true]
  \/ [e; q; p; g] = [false; false; false; false].
Proof.
  cbn zeta.
  destruct (ieq w "explain") eqn:E1; [left; apply ieq_true in E1; unfold ieq; rewrite E1; reflexivity|right].
  destruct (ieq w "query") eqn:E2; [left; apply ieq_true in E2; unfold ieq; rewrite E2; reflexivity|right].
  destruct (ieq w "plan") eqn:E3; [left; apply ieq_true in E3; unfold ieq; rewrite E3; reflexivity|right].
  destruct (ieq w "pragma") eqn:E4; [left|right]; reflexivity.
Qed.

(* ---------- the loop of IsBreakingPragma against the parser model ---------- *)

(* guard state / breaking flag vs parser state *)
Definition R (g : gstate) (b : bool) (p : pstate) : Prop :=
  match p with
  | PStart => g = AtStart
  | PExplain | PExplainQ | PExplainQP => g = AtExplain
  | PPragma => g = AtPragma
  | PName1 n => g = AtName /\ (crit n = true -> b = true) /\ bare_effect n = []
  | PDot => g = AtDot
  | PName2 n => g = AtName2 /\ (crit n = true -> b = true) /\ bare_effect n = []
  | PValue n => g <> AtStart /\ crit n = false
  | PSkip => g <> AtStart
  end.

Lemma R_start g b p : R g b p -> gstate_eqb g AtStart = is_start p.
Proof.
  destruct p; cbn; intros H; try (subst g; reflexivity);
    try (destruct H as [-> _]; reflexivity);
    try (destruct H as [H _]); destruct g; try reflexivity; congruence.
Qed.

Lemma crit_false n : crit n = false -> set_effect n = [].
Proof. unfold crit. destruct (set_effect n); [reflexivity|discriminate]. Qed.

Lemma kw_eq k tok t kw : krel k tok t -> g_is_keyword k tok kw = is_kw t kw.
Proof.
  unfold g_is_keyword. destruct t; cbn; try (intros ->; reflexivity).
  - intros [-> ->]. cbn. rewrite g_ascii_lower_eq. reflexivity.
  - intros [-> _]. reflexivity.
Qed.

Definition gname (k : gkind) (tok : bytes) : bytes := if gkind_eqb k TkQuoted then g_inner tok else tok.

Lemma name_sim k tok t : krel k tok t ->
  match name_tok t with
  | Some n => (k = TkWord \/ k = TkQuoted) /\ name_facts (map_lookup breaking_pragmas (g_ascii_lower (gname k tok))) n
  | None => k <> TkWord /\ k <> TkQuoted
  end.
Proof.
  destruct t; cbn; try (intros ->; split; discriminate).
  - intros [-> ->]. split; [left; reflexivity|]. cbn. rewrite g_ascii_lower_eq. apply lookup_word.
  - intros (-> & <- & Hq). split; [right; reflexivity|]. cbn. rewrite g_ascii_lower_eq. apply lookup_quoted, Hq.
Qed.

Definition step_ok (g : gstate) (b : bool) (k : gkind) (tok : bytes) (p : pstate) (t : stok) : Prop :=
  match g_switch g b k tok with
  | GReturn r => r = true
  | GNext g' b' => snd (p_step p t) = [] /\ R g' b' (fst (p_step p t))
  end.

Lemma not_start_after g b k tok :
  gkind_eqb k TkSpace = false -> gkind_eqb k TkSemi = false ->
  match g_switch g b k tok with GReturn r => r = true | GNext g' _ => g' <> AtStart end.
Proof.
  intros H1 H2. unfold g_switch. rewrite H1, H2.
  destruct g; cbn [gstate_eqb andb orb];
  repeat match goal with
         | |- context [if ?c then _ else _] => destruct c
         | |- context [match ?c with Some _ => _ | None => _ end] => destruct c
         end; try reflexivity; discriminate.
Qed.

Definition kind_of (t : stok) : gkind :=
  match t with
  | SSpace => TkSpace | SSemi => TkSemi | SDot => TkDot | SEq => TkEq | SLp => TkLP
  | SRp | SOther => TkOther | SWord _ => TkWord | SQuoted _ _ => TkQuoted
  end.
Lemma krel_kind k tok t : krel k tok t -> k = kind_of t.
Proof. destruct t; cbn; intuition. Qed.

Lemma stok_eq_semi t : t = SSemi \/ t <> SSemi.
Proof. destruct t; (left; reflexivity) || (right; discriminate). Qed.

Lemma step_sim g b p k tok t :
  R g b p -> krel k tok t -> t <> SSpace -> step_ok g b k tok p t.
Proof.
  intros HR Hk Hns. unfold step_ok.
  destruct (stok_eq_semi t) as [->|Hsemi].
  { cbn in Hk. subst k. unfold g_switch. cbn [gkind_eqb].
    destruct p; cbn [p_step fst snd R] in HR |- *; try (split; reflexivity);
      destruct HR as (_ & _ & HR); rewrite HR; split; reflexivity. }
  assert (K12 : gkind_eqb k TkSpace = false /\ gkind_eqb k TkSemi = false).
  { destruct t; cbn [krel] in Hk; try (exfalso; apply Hns; reflexivity); try (exfalso; apply Hsemi; reflexivity);
      match type of Hk with _ /\ _ => destruct Hk as [Hk _] | _ => idtac end; rewrite Hk; split; reflexivity. }
  destruct K12 as [K1 K2].
  pose proof (not_start_after g b k tok K1 K2) as Hnot.
  (* states in which the parser model only waits for the next ';' *)
  assert (Hskip : forall n, (p = PSkip \/ (p = PValue n /\ crit n = false)) ->
            match g_switch g b k tok with GReturn r => r = true
                                        | GNext g' b' => snd (p_step p t) = [] /\ R g' b' (fst (p_step p t)) end).
  { intros n Hp. destruct (g_switch g b k tok) as [r|g' b']; [exact Hnot|].
    destruct Hp as [->|[-> Hc]].
    - destruct t; cbn; (split; [reflexivity|exact Hnot]) || congruence.
    - apply crit_false in Hc. destruct t; cbn; rewrite ?Hc; (split; [reflexivity|exact Hnot]) || congruence. }
  destruct p; cbn in HR.
  10: { apply (Hskip []). left. reflexivity. }
  9: { apply (Hskip n). right. split; [reflexivity|apply HR]. }
  all: try subst g.
  - (* PStart *)
    unfold g_switch. rewrite K1, K2, !(kw_eq _ _ _ _ Hk). cbn [gstate_eqb andb orb p_step].
    destruct t; try congruence; cbn [is_kw p_step]; try (cbn; split; [reflexivity|discriminate]).
    destruct (kw_cases w) as [E|[E|[E|[E|E]]]]; cbn zeta in E; injection E as E1 E2 E3 E4; rewrite ?E1, ?E2, ?E3, ?E4; cbn; split; try reflexivity; discriminate.
  - (* PExplain *)
    unfold g_switch. rewrite K1, K2, !(kw_eq _ _ _ _ Hk). cbn [gstate_eqb andb orb p_step].
    destruct t; try congruence; cbn [is_kw p_step]; try (cbn; split; [reflexivity|discriminate]).
    destruct (kw_cases w) as [E|[E|[E|[E|E]]]]; cbn zeta in E; injection E as E1 E2 E3 E4; rewrite ?E1, ?E2, ?E3, ?E4; cbn; split; try reflexivity; discriminate.
  - (* PExplainQ *)
    unfold g_switch. rewrite K1, K2, !(kw_eq _ _ _ _ Hk). cbn [gstate_eqb andb orb p_step].
    destruct t; try congruence; cbn [is_kw p_step]; try (cbn; split; [reflexivity|discriminate]).
    destruct (kw_cases w) as [E|[E|[E|[E|E]]]]; cbn zeta in E; injection E as E1 E2 E3 E4; rewrite ?E1, ?E2, ?E3, ?E4; cbn; split; try reflexivity; discriminate.
  - (* PExplainQP *)
    unfold g_switch. rewrite K1, K2, !(kw_eq _ _ _ _ Hk). cbn [gstate_eqb andb orb p_step].
    destruct t; try congruence; cbn [is_kw p_step]; try (cbn; split; [reflexivity|discriminate]).
    destruct (kw_cases w) as [E|[E|[E|[E|E]]]]; cbn zeta in E; injection E as E1 E2 E3 E4; rewrite ?E1, ?E2, ?E3, ?E4; cbn; split; try reflexivity; discriminate.
  - (* PPragma *)
    pose proof (name_sim _ _ _ Hk) as Hn.
    unfold g_switch. rewrite K1, K2. cbn [gstate_eqb andb orb]. fold (gname k tok).
    assert (Hp : fst (p_step PPragma t) = match name_tok t with Some n => PName1 n | None => PSkip end
                 /\ snd (p_step PPragma t) = []).
    { destruct t; try congruence; cbn; auto. }
    destruct Hp as [-> ->].
    destruct (name_tok t) as [n|].
    + destruct Hn as [[-> | ->] Hf]; cbn [gkind_eqb orb];
        destruct (map_lookup breaking_pragmas (g_ascii_lower _)) as [[|]|]; cbn in Hf |- *; try reflexivity.
      all: try (split; [reflexivity|]; split; [reflexivity|]; split; [reflexivity|exact Hf]).
      all: destruct Hf as [Hb Hs]; split; [reflexivity|]; split; [reflexivity|]; split; [|exact Hb];
        unfold crit; rewrite Hs; discriminate.
    + destruct Hn as [H1 H2]. destruct k; try congruence; cbn; split; try reflexivity; discriminate.
  - (* PName1 *)
    destruct HR as (-> & Hb & Hbare).
    apply krel_kind in Hk. subst k. clear K1 K2 Hnot Hskip.
    destruct t; try congruence; cbn.
    all: try (split; reflexivity).
    all: destruct b; cbn; try reflexivity; repeat split; try discriminate.
    all: destruct (crit n); [specialize (Hb eq_refl); discriminate|reflexivity].
  - (* PDot *)
    pose proof (name_sim _ _ _ Hk) as Hn.
    unfold g_switch. rewrite K1, K2. cbn [gstate_eqb andb orb]. fold (gname k tok).
    assert (Hp : fst (p_step PDot t) = match name_tok t with Some n => PName2 n | None => PSkip end
                 /\ snd (p_step PDot t) = []).
    { destruct t; try congruence; cbn; auto. }
    destruct Hp as [-> ->].
    destruct (name_tok t) as [n|].
    + destruct Hn as [[-> | ->] Hf]; cbn [gkind_eqb orb];
        destruct (map_lookup breaking_pragmas (g_ascii_lower _)) as [[|]|]; cbn in Hf |- *; try reflexivity.
      all: try (split; [reflexivity|]; split; [reflexivity|]; split; [reflexivity|exact Hf]).
      all: destruct Hf as [Hb Hs]; split; [reflexivity|]; split; [reflexivity|]; split; [|exact Hb];
        unfold crit; rewrite Hs; discriminate.
    + destruct Hn as [H1 H2]. destruct k; try congruence; cbn; split; try reflexivity; discriminate.
  - (* PName2 *)
    destruct HR as (-> & Hb & Hbare).
    apply krel_kind in Hk. subst k. clear K1 K2 Hnot Hskip.
    destruct t; try congruence; cbn.
    all: try (split; reflexivity).
    all: destruct b; cbn; try reflexivity; repeat split; try discriminate.
    all: destruct (crit n); [specialize (Hb eq_refl); discriminate|reflexivity].
Qed.

(* ---------- whole texts ---------- *)

Definition is_space_tok (t : stok) : bool := match t with SSpace => true | _ => false end.

Lemma sq_run_S f p s :
  sq_run (S f) p s =
  let z := if is_start p then go_trim_left s else s in
  match sq_token z with
  | None => Some (p_end p)
  | Some (t, rest) =>
    if is_space_tok t then sq_run f p rest
    else option_map (app (snd (p_step p t))) (sq_run f (fst (p_step p t)) rest)
  end.
Proof.
  cbn [sq_run]. cbn zeta. destruct (sq_token _) as [[t rest]|]; [|reflexivity].
  destruct t; cbn [is_space_tok]; try reflexivity; destruct (p_step p _) as [p' e]; cbn [fst snd];
    destruct (sq_run f p' rest); reflexivity.
Qed.

Lemma p_end_R g b p : R g b p -> p_end p = [].
Proof. destruct p; cbn; try reflexivity; intros (_ & _ & H); exact H. Qed.

Lemma sim : forall fuel g b p s effs,
  R g b p -> sq_run fuel p s = Some effs -> effs <> [] -> g_loop fuel g b s = Some true.
Proof.
  induction fuel as [|f IH]; intros g b p s effs HR Hrun Hne; [discriminate|].
  rewrite sq_run_S in Hrun. cbn zeta in Hrun. cbn [g_loop]. rewrite (R_start _ _ _ HR).
  destruct (if is_start p then go_trim_left s else s) as [|c r] eqn:Ez.
  - cbn in Hrun. injection Hrun as <-. rewrite (p_end_R _ _ _ HR) in Hne. congruence.
  - destruct (tok_sim (c :: r) ltac:(discriminate)) as (t & rest & Ht & Hs & Hk & Hn).
    rewrite Ht in Hrun. destruct (g_token (c :: r)) as [k n]. cbn [fst snd] in *.
    destruct (is_space_tok t) eqn:Esp.
    + destruct t; try discriminate. cbn in Hk. subst k. cbn [g_switch gkind_eqb]. rewrite Hs.
      exact (IH _ _ _ _ _ HR Hrun Hne).
    + assert (Hns : t <> SSpace) by (intros ->; discriminate).
      pose proof (step_sim _ _ _ _ _ _ HR Hk Hns) as Hstep. unfold step_ok in Hstep.
      destruct (g_switch g b k (firstn n (c :: r))) as [res|g' b'].
      * subst res. reflexivity.
      * destruct Hstep as [He HR']. rewrite He in Hrun. rewrite Hs.
        destruct (sq_run f (fst (p_step p t)) rest) as [es|] eqn:E; [|discriminate].
        cbn in Hrun. injection Hrun as <-. exact (IH _ _ _ _ _ HR' E Hne).
Qed.

Theorem guard_complete : forall text effs,
  sqlite_effects text = Some effs -> effs <> [] -> guard text = Some true.
Proof.
  unfold sqlite_effects, guard. intros text effs H Hne.
  exact (sim _ AtStart false PStart _ _ eq_refl H Hne).
Qed.

(* neither model runs out of fuel *)
Lemma trim_le : forall n l, (List.length l <= n)%nat -> (List.length (go_trim_left l) <= List.length l)%nat.
Proof.
  induction n as [|n IH]; intros l Hl; [destruct l; [cbn; lia|cbn in Hl; lia]|].
  destruct l as [|c r]; [cbn; lia|]. cbn in Hl. cbn [go_trim_left].
  repeat match goal with
         | |- context [if ?x then _ else _] => destruct x
         | |- context [match ?x with [] => _ | _ :: _ => _ end] => destruct x
         end; cbn [List.length] in *; try lia;
    match goal with |- context [go_trim_left ?x] => pose proof (IH x ltac:(cbn [List.length] in *; lia)); cbn [List.length] in *; lia end.
Qed.

Lemma start_le p s : (List.length (if is_start p then go_trim_left s else s) <= List.length s)%nat.
Proof. destruct (is_start p); [apply (trim_le _ _ (le_n _))|lia]. Qed.

Lemma sq_total : forall fuel p s, (List.length s < fuel)%nat -> sq_run fuel p s <> None.
Proof.
  induction fuel as [|f IH]; intros p s Hl; [lia|]. rewrite sq_run_S. cbn zeta.
  pose proof (start_le p s) as Hle.
  destruct (if is_start p then go_trim_left s else s) as [|c r] eqn:Ez; [cbn; discriminate|].
  assert (Hle' : (List.length (c :: r) <= List.length s)%nat) by (rewrite <- Ez; apply start_le).
  destruct (tok_sim (c :: r) ltac:(discriminate)) as (t & rest & Ht & Hs & Hk & Hn). rewrite Ht.
  assert (Hr : (List.length rest < f)%nat) by (rewrite <- Hs, skipn_length; lia).
  destruct (is_space_tok t); [apply IH, Hr|].
  specialize (IH (fst (p_step p t)) rest Hr). destruct (sq_run f _ rest); [discriminate|congruence].
Qed.

Lemma g_total : forall fuel g b s, (List.length s < fuel)%nat -> g_loop fuel g b s <> None.
Proof.
  induction fuel as [|f IH]; intros g b s Hl; [lia|]. cbn [g_loop].
  assert (Hle : (List.length (if gstate_eqb g AtStart then go_trim_left s else s) <= List.length s)%nat)
    by (destruct (gstate_eqb g AtStart); [apply (trim_le _ _ (le_n _))|lia]).
  destruct (if gstate_eqb g AtStart then go_trim_left s else s) as [|c r] eqn:Ez; [discriminate|].
  assert (Hle' : (List.length (c :: r) <= List.length s)%nat) by (rewrite <- Ez; exact Hle).
  destruct (tok_sim (c :: r) ltac:(discriminate)) as (t & rest & Ht & Hs & Hk & Hn).
  destruct (g_token (c :: r)) as [k n]. cbn [fst snd] in *.
  destruct (g_switch g b k (firstn n (c :: r))); [discriminate|].
  apply IH. rewrite skipn_length. lia.
Qed.

Theorem models_total : forall text, sqlite_effects text <> None /\ guard text <> None.
Proof.
  intro text. split; [apply sq_total|apply g_total]; lia.
Qed.

(* ---------- requests ---------- *)

Lemma pragma_check_some : forall stmts, exists r, pragma_check stmts = Some r.
Proof.
  induction stmts as [|st r IH]; [eexists; reflexivity|]. destruct IH as [a Ha].
  cbn [pragma_check fold_right] in *. fold (pragma_check r). rewrite Ha.
  destruct (guard (st_sql st)) as [x|] eqn:E; [eexists; reflexivity|]. destruct (models_total (st_sql st)) as [_ H]. congruence.
Qed.

Lemma pragma_check_true : forall stmts st, In st stmts -> guard (st_sql st) = Some true -> pragma_check stmts = Some true.
Proof.
  induction stmts as [|x r IH]; intros st Hin Hg; [destruct Hin|].
  cbn [pragma_check fold_right]. fold (pragma_check r). destruct Hin as [->|Hin].
  - rewrite Hg. destruct (pragma_check_some r) as [a ->]. reflexivity.
  - rewrite (IH st Hin Hg). destruct (guard (st_sql x)) as [b|] eqn:E; [rewrite orb_true_r; reflexivity|].
    destruct (models_total (st_sql x)) as [_ H]. congruence.
Qed.

Theorem applied_everywhere : forall e stmts st effs,
  In st stmts -> sqlite_effects (st_sql st) = Some effs -> effs <> [] -> store_refuses e stmts = Some true.
Proof.
  intros e stmts st effs Hin He Hne.
  assert (H : pragma_check stmts = Some true) by (apply (pragma_check_true stmts st Hin), (guard_complete (st_sql st) effs He Hne)).
  destruct e; exact H.
Qed.

(* the same, with the flags of the statement spelled out: they are arbitrary *)
Theorem applied_everywhere_flags : forall (e : entry) (stmts : list statement) sql explain force_query effs,
  In {| st_sql := sql; st_explain := explain; st_force_query := force_query |} stmts ->
  sqlite_effects sql = Some effs -> effs <> [] -> store_refuses e stmts = Some true.
Proof. intros e stmts sql ex fq effs Hin. exact (applied_everywhere e stmts _ effs Hin). Qed.

(* ---------- concrete instances: one per variation named in the property ---------- *)

Definition flagged_with (text : bytes) (effs : list effect) : Prop :=
  sqlite_effects text = Some effs /\ effs <> [] /\ guard text = Some true.
Ltac by_run := split; [vm_compute; reflexivity|split; [discriminate|vm_compute; reflexivity]].
Local Open Scope string_scope.
Local Open Scope list_scope.

Example ex_plain : flagged_with (bytes_of_string "PRAGMA journal_mode=DELETE") [SetJournalMode].
Proof. by_run. Qed.
Example ex_case_and_space : flagged_with (bytes_of_string "  pRaGmA   Wal_AutoCheckpoint  =  1000") [SetAutoCheckpoint].
Proof. by_run. Qed.
Example ex_leading_comment : flagged_with (bytes_of_string "/* hi */ -- x
 PRAGMA synchronous=2") [SetSynchronous].
Proof. by_run. Qed.
Example ex_inner_comment : flagged_with (bytes_of_string "PRAGMA/**/query_only/* ; */=/**/1") [SetQueryOnly].
Proof. by_run. Qed.
Example ex_later_statement : flagged_with (bytes_of_string "SELECT 'a;b'; SELECT $v(;'); PRAGMA query_only=1; SELECT 2") [SetQueryOnly].
Proof. by_run. Qed.
Example ex_call_syntax : flagged_with (bytes_of_string "PRAGMA journal_mode(DELETE)") [SetJournalMode].
Proof. by_run. Qed.
Example ex_quoted : flagged_with (bytes_of_string "PRAGMA ""journal_mode""=1; PRAGMA 'synchronous'=1; PRAGMA [query_only]=1; PRAGMA `wal_autocheckpoint`=1")
                                 [SetJournalMode; SetSynchronous; SetQueryOnly; SetAutoCheckpoint].
Proof. by_run. Qed.
Example ex_schema : flagged_with (bytes_of_string "PRAGMA ""main"" . wal_autocheckpoint = 5") [SetAutoCheckpoint].
Proof. by_run. Qed.
Example ex_explain : flagged_with (bytes_of_string "explain query plan pragma synchronous=2") [SetSynchronous].
Proof. by_run. Qed.
Example ex_checkpoint_bare : flagged_with (bytes_of_string "SELECT 1; PRAGMA main.wal_checkpoint") [RunCheckpoint].
Proof. by_run. Qed.
Example ex_unicode_tail : flagged_with (bytes_of_string "SELECT 1;" ++ [194; 160; 11]%N ++ bytes_of_string "PRAGMA synchronous=2") [SetSynchronous].
Proof. by_run. Qed.
Example ex_bom : flagged_with ([239; 187; 191]%N ++ bytes_of_string "PRAGMA synchronous=2") [SetSynchronous].
Proof. by_run. Qed.
Example ex_nul : flagged_with (bytes_of_string "PRAGMA synchronous=2" ++ [0]%N ++ bytes_of_string "'") [SetSynchronous].
Proof. by_run. Qed.
(* harmless texts that must stay usable (not required by the property; recorded for the docs) *)
Example ex_not_flagged :
  map guard (map bytes_of_string ["PRAGMA journal_mode"; "PRAGMA foreign_keys=1"; "SELECT 'PRAGMA journal_mode=DELETE'";
                                  "/* PRAGMA synchronous=1 */ SELECT 1"; "X PRAGMA journal_mode=1"])
  = [Some false; Some false; Some false; Some false; Some false].
Proof. vm_compute. reflexivity. Qed.
(* the flags do not matter: a text the HTTP layer marks SqlExplain (its first statement is an EXPLAIN) *)
Example ex_request :
  store_refuses Query [ {| st_sql := bytes_of_string "SELECT 1"; st_explain := false; st_force_query := false |};
                        {| st_sql := bytes_of_string "EXPLAIN SELECT 1; PRAGMA synchronous=2"; st_explain := true; st_force_query := false |} ]
  = Some true
  /\ sqlite_effects (bytes_of_string "EXPLAIN SELECT 1; PRAGMA synchronous=2") = Some [SetSynchronous].
Proof. split; vm_compute; reflexivity. Qed.
