package store

// C02 driver.
//  A. White-box step traces: Store.waitForLinearizableRead is called on live nodes of a 3-node
//     cluster in steered situations (term argument, strongReadTerm, role, readiness, an FSM that is
//     kept busy so that it lags behind the commit index); what the call read, what it returned and
//     whether leadership was verified go to Model.C02.check_case (wait_lin / lin_calls_verify).
//     Independent oracle: after a call that returned nil every entry committed when it started is
//     visible in the local database.
//  B. Black-box: a register workload (unique values per key) from concurrent clients on all three
//     nodes, with client-side forwarding to the leader, under repeated stepdowns; the history is
//     checked per key by a linearizability search (Wing & Gong with memoisation) written below -
//     it only looks for a failing history.  Writes with unknown outcome may or may not take effect.

import (
	"context"
	"encoding/json"
	"errors"
	"fmt"
	"math/rand"
	"sort"
	"strings"
	"sync"
	"sync/atomic"
	"testing"
	"time"

	"github.com/rqlite/rqlite/v10/command/proto"
)

// ---------------------------------------------------------------- A. traces

type c02TraceIn struct {
	Kind     string `json:"kind"`      // "trace" | "lag"
	Role     string `json:"role"`      // leader | follower
	Srt      string `json:"srt"`       // zero | current | previous
	ReadTerm string `json:"read_term"` // current | previous
	Ready    bool   `json:"ready"`
	Round    int    `json:"round"` // 0 = first leader, 1 = after a stepdown ...
}

func c02Result(err error) string {
	switch {
	case err == nil:
		return "LinOk"
	case err == ErrStrongReadNeeded:
		return "LinStrongNeeded"
	case errors.Is(err, ErrNotLeader):
		return "LinNotLeader"
	case errors.Is(err, ErrNotReady):
		return "LinNotReady"
	case errors.Is(err, ErrStaleRead):
		return "LinTermChanged"
	case errors.Is(err, ErrWaitForFSMTimeout):
		return "LinTimeout"
	default:
		return "LinVerifyFailed"
	}
}

type c02Env struct {
	c *vCluster
}

func c02NewEnv(t *testing.T) *c02Env {
	for attempt := 0; attempt < 3; attempt++ {
		c, err := vcNew(t, 3, 0)
		if err != nil {
			continue
		}
		ld := c.leader(10 * time.Second)
		if ld == nil {
			c.close()
			continue
		}
		if err := vcExec(ld.s, "CREATE TABLE reg (k INTEGER PRIMARY KEY, v INTEGER)", "CREATE TABLE big (x INTEGER)", "CREATE TABLE seq (tag INTEGER)"); err != nil {
			c.close()
			continue
		}
		return &c02Env{c: c}
	}
	return nil
}

func (e *c02Env) pick(role string) (*vcNode, *vcNode) {
	ld := e.c.leader(15 * time.Second)
	if ld == nil {
		return nil, nil
	}
	if !e.c.settle(ld, 10*time.Second) {
		return nil, nil
	}
	if role == "leader" {
		return ld, ld
	}
	for _, n := range e.c.nodes {
		if n != ld {
			return n, ld
		}
	}
	return nil, nil
}

func (e *c02Env) trace(w *vWriter, in c02TraceIn) {
	key := vJSON(in)
	tags := []string{"trace", "role=" + in.Role}
	n, _ := e.pick(in.Role)
	if n == nil {
		w.Emit(VCase{Input: in, Key: key, Inconcl: "no settled leader", Tags: tags})
		return
	}
	s := n.s
	term := s.raft.CurrentTerm()
	pick := func(which string) uint64 {
		switch which {
		case "zero":
			return 0
		case "previous":
			return term - 1
		}
		return term
	}
	savedSrt := s.strongReadTerm.Load()
	s.strongReadTerm.Store(pick(in.Srt))
	defer s.strongReadTerm.Store(savedSrt)
	var readyCh chan struct{}
	if !in.Ready {
		readyCh = make(chan struct{})
		s.RegisterReadyChannel(readyCh)
		defer func() {
			close(readyCh)
			for i := 0; i < 400 && !s.Ready(); i++ {
				time.Sleep(5 * time.Millisecond)
			}
		}()
	}
	readTerm := pick(in.ReadTerm)
	pre := vcLinBefore(s)
	pre.Term = readTerm
	err := s.waitForLinearizableRead(readTerm, int64(5*time.Second))
	coq, verified, vok := vcLinAfter(s, pre, err)
	if s.raft.CurrentTerm() != term || s.IsLeader() != pre.Leader {
		w.Emit(VCase{Input: in, Key: key, Inconcl: "leadership changed during the trace", Tags: tags})
		return
	}
	res := c02Result(err)
	tags = append(tags, "result="+res)
	c := VCase{Input: in, Key: key, Tags: tags,
		Nontrivial: res != "LinStrongNeeded" && res != "LinOk",
		Coq:        fmt.Sprintf("CTrace {| c_obs := %s; c_result := %s; c_verified := %s |}", coq, res, coqBool(verified))}
	// property-level statements that need no model: a node that is not leader, or is asked about a term
	// that is over, or has not had a strong read in this term, never passes
	if err == nil && !vok {
		// "the node confirmed leadership with a quorum" - for this read, not for an earlier one
		c.OracleFail = fmt.Sprintf("waitForLinearizableRead returned nil on %s without a successful VerifyLeader of its own (term %d)", in.Role, term)
		c.Sig = "C02:linearizable-read-without-leadership-check"
	}
	if err == nil && (!pre.Leader || readTerm != term || pre.Srt != readTerm) {
		c.OracleFail = fmt.Sprintf("waitForLinearizableRead passed on %s with leader=%v read term %d current term %d strongReadTerm %d", in.Role, pre.Leader, readTerm, term, pre.Srt)
		c.Sig = "C02:read-protocol-passed-without-" + map[bool]string{true: "leadership", false: "current-term-strong-read"}[!pre.Leader]
	}
	w.Emit(c)
}

// lag: keep the leader's FSM busy with a slow committed write and read while it lags.
func (e *c02Env) lag(w *vWriter, in c02TraceIn) {
	key := vJSON(in)
	tags := []string{"lag"}
	ld, _ := e.pick("leader")
	if ld == nil {
		w.Emit(VCase{Input: in, Key: key, Inconcl: "no settled leader", Tags: tags})
		return
	}
	s := ld.s
	ctx := context.Background()
	// make this term's strong read so that the protocol gets to the wait
	qr := queryRequestFromString("SELECT COUNT(*) FROM big", false, false, false)
	qr.Level = proto.ConsistencyLevel_STRONG
	if _, _, _, err := s.Query(ctx, qr); err != nil {
		w.Emit(VCase{Input: in, Key: key, Inconcl: "strong read failed: " + err.Error(), Tags: tags})
		return
	}
	count := func() int64 {
		q := queryRequestFromString("SELECT COUNT(*) FROM big", false, false, false)
		q.Level = proto.ConsistencyLevel_NONE
		rows, _, _, err := s.Query(ctx, q)
		if err != nil || len(rows) == 0 || len(rows[0].Values) == 0 {
			return -1
		}
		return rows[0].Values[0].Parameters[0].GetI()
	}
	before := count()
	const nrows = 1500000
	done := make(chan error, 1)
	go func() {
		done <- vcExec(s, fmt.Sprintf("INSERT INTO big(x) WITH RECURSIVE c(i) AS (SELECT 1 UNION ALL SELECT i+1 FROM c WHERE i < %d) SELECT i FROM c", nrows))
	}()
	// wait until the write is committed but not applied
	lagging := false
	for i := 0; i < 4000; i++ {
		if s.raft.CommitIndex() > s.fsmIdx.Load() {
			lagging = true
			break
		}
		select {
		case err := <-done:
			done <- err
			i = 4000
		default:
			time.Sleep(250 * time.Microsecond)
		}
	}
	term := s.raft.CurrentTerm()
	emit := func(tag string, timeout time.Duration, expectRows bool) {
		pre := vcLinBefore(s)
		err := s.waitForLinearizableRead(term, int64(timeout))
		got := count()
		coq, verified, _ := vcLinAfter(s, pre, err)
		res := c02Result(err)
		c := VCase{Input: in, Key: key + "/" + tag, Tags: append([]string{"result=" + res, "lag=" + tag}, tags...), Nontrivial: pre.Commit > pre.FsmIdx,
			Coq: fmt.Sprintf("CTrace {| c_obs := %s; c_result := %s; c_verified := %s |}", coq, res, coqBool(verified))}
		if !(pre.Commit > pre.FsmIdx) {
			c.Inconcl = "the FSM was not lagging when the read started"
			c.Coq = ""
		} else if err == nil && got < before+nrows {
			// the write was committed (commit index read by the call covers it) but the database the read would use lacks it
			c.OracleFail = fmt.Sprintf("waitForLinearizableRead returned nil while the entry at commit index %d (fsm index %d) was not applied: %d rows visible, %d expected", pre.Commit, pre.FsmIdx, got, before+nrows)
			c.Sig = "C02:linearizable-read-missed-committed-write"
		}
		w.Emit(c)
	}
	if !lagging {
		<-done
		w.Emit(VCase{Input: in, Key: key, Inconcl: "could not catch the FSM lagging", Tags: tags})
		return
	}
	emit("short-timeout", 20*time.Millisecond, false)
	emit("long-timeout", 60*time.Second, true)
	<-done
}

func c02TraceInputs(round int) []c02TraceIn {
	var out []c02TraceIn
	for _, role := range []string{"leader", "follower"} {
		for _, srt := range []string{"zero", "current", "previous"} {
			for _, rt := range []string{"current", "previous"} {
				for _, ready := range []bool{true, false} {
					out = append(out, c02TraceIn{Kind: "trace", Role: role, Srt: srt, ReadTerm: rt, Ready: ready, Round: round})
				}
			}
		}
	}
	return out
}

// ---------------------------------------------------------------- B. register workload

type c02Op struct {
	Client int    `json:"c"`
	Kind   string `json:"op"` // w | lin | strong
	Key    int    `json:"k"`
	Val    int64  `json:"v"`   // written / returned (0 = key absent)
	Inv    int64  `json:"inv"` // ns since start
	Resp   int64  `json:"resp"`
	Known  bool   `json:"ok"` // false: outcome unknown (writes only; failed reads are dropped)
}

type c02WorkIn struct {
	Kind      string `json:"kind"` // "workload"
	Seed      int64  `json:"seed"`
	Clients   int    `json:"clients"`
	Keys      int    `json:"keys"`
	Millis    int    `json:"millis"`
	Stepdowns int    `json:"stepdowns"`
}

// linearizability of one register's history: search for an order (Wing & Gong), memoised on
// (set of linearized operations, register value)
func c02CheckKey(ops []c02Op) (bool, string) {
	n := len(ops)
	if n > 256 {
		return true, "unchecked" // budget
	}
	const inf = int64(1) << 62
	resp := make([]int64, n)
	for i, o := range ops {
		resp[i] = o.Resp
		if !o.Known {
			resp[i] = inf
		}
	}
	type bits [4]uint64
	type st struct {
		mask bits
		val  int64
	}
	has := func(m bits, i int) bool { return m[i/64]&(1<<uint(i%64)) != 0 }
	with := func(m bits, i int) bits { m[i/64] |= 1 << uint(i%64); return m }
	seen := map[st]bool{}
	var rec func(mask bits, val int64) bool
	rec = func(mask bits, val int64) bool {
		allKnownDone := true
		for i := 0; i < n; i++ {
			if !has(mask, i) && ops[i].Known {
				allKnownDone = false
				break
			}
		}
		if allKnownDone {
			return true // remaining unknown-outcome writes never took effect
		}
		k := st{mask, val}
		if seen[k] {
			return false
		}
		seen[k] = true
		// the earliest response among the operations not yet linearized: nothing invoked after it may go first
		minResp := inf
		for i := 0; i < n; i++ {
			if !has(mask, i) && resp[i] < minResp {
				minResp = resp[i]
			}
		}
		for i := 0; i < n; i++ {
			if has(mask, i) || ops[i].Inv > minResp {
				continue
			}
			if ops[i].Kind == "w" {
				if rec(with(mask, i), ops[i].Val) {
					return true
				}
			} else if ops[i].Val == val {
				if rec(with(mask, i), val) {
					return true
				}
			}
		}
		return false
	}
	if rec(bits{}, 0) {
		return true, ""
	}
	// diagnosis: a read that returned something older than an acknowledged write which had completed before it began
	for _, r := range ops {
		if r.Kind == "w" {
			continue
		}
		for _, wv := range ops {
			if wv.Kind == "w" && wv.Known && wv.Resp < r.Inv && wv.Val != r.Val {
				// is the value read from a write that finished before wv began?
				for _, w0 := range ops {
					if w0.Kind == "w" && w0.Val == r.Val && w0.Known && w0.Resp < wv.Inv {
						return false, "stale-" + r.Kind + "-read"
					}
				}
				if r.Val == 0 {
					return false, "stale-" + r.Kind + "-read"
				}
			}
		}
	}
	return false, "no-order"
}

func (e *c02Env) workload(w *vWriter, in c02WorkIn) {
	key := vJSON(in)
	tags := []string{"workload"}
	ld := e.c.leader(15 * time.Second)
	if ld == nil || !e.c.settle(ld, 10*time.Second) {
		w.Emit(VCase{Input: in, Key: key, Inconcl: "no settled leader", Tags: tags})
		return
	}
	ctx := context.Background()
	// fresh keys for this run
	base := int(in.Seed%1000)*1000 + 1
	start := time.Now()
	now := func() int64 { return time.Since(start).Nanoseconds() }
	var mu sync.Mutex
	var hist []c02Op
	var nextVal atomic.Int64
	nextVal.Store(in.Seed * 1000000)
	stop := make(chan struct{})
	var wg sync.WaitGroup
	leaderStore := func() *Store {
		for _, n := range e.c.nodes {
			if n.s.IsLeader() {
				return n.s
			}
		}
		return nil
	}
	// one request as the HTTP layer does it: the local store first, then the leader
	doWrite := func(s *Store, k int, v int64) (bool, bool) { // (acked, definitelyNotApplied)
		// the register write, and a row tagged with the (unique) value: a statement applied twice shows
		sqls := []string{fmt.Sprintf("INSERT OR REPLACE INTO reg(k, v) VALUES(%d, %d)", k, v), fmt.Sprintf("INSERT INTO seq(tag) VALUES(%d)", v)}
		for hop := 0; hop < 2; hop++ {
			rs, _, err := s.Execute(ctx, executeRequestFromStrings(sqls, false, true))
			if err == nil {
				if len(rs) == 2 && rs[0].GetError() == "" && rs[1].GetError() == "" {
					return true, false
				}
				return false, true
			}
			if errors.Is(err, ErrNotLeader) && hop == 0 {
				if l := leaderStore(); l != nil && l != s {
					s = l
					continue
				}
				return false, true
			}
			if errors.Is(err, ErrNotLeader) || errors.Is(err, ErrNotReady) {
				return false, true // refused before anything was appended
			}
			return false, false // leadership lost / timeout while applying: unknown
		}
		return false, true
	}
	doRead := func(s *Store, k int, lvl proto.ConsistencyLevel) (int64, bool) {
		for hop := 0; hop < 2; hop++ {
			qr := queryRequestFromString(fmt.Sprintf("SELECT v FROM reg WHERE k=%d", k), false, false, false)
			qr.Level = lvl
			qr.LinearizableTimeout = int64(3 * time.Second)
			rows, _, _, err := s.Query(ctx, qr)
			if err == nil {
				if len(rows) != 1 || rows[0].Error != "" {
					return 0, false
				}
				if len(rows[0].Values) == 0 {
					return 0, true
				}
				return rows[0].Values[0].Parameters[0].GetI(), true
			}
			if errors.Is(err, ErrNotLeader) && hop == 0 {
				if l := leaderStore(); l != nil && l != s {
					s = l
					continue
				}
			}
			return 0, false
		}
		return 0, false
	}
	for c := 0; c < in.Clients; c++ {
		wg.Add(1)
		go func(c int) {
			defer wg.Done()
			rng := rand.New(rand.NewSource(in.Seed*100 + int64(c)))
			s := e.c.nodes[c%len(e.c.nodes)].s
			for {
				select {
				case <-stop:
					return
				default:
				}
				k := base + rng.Intn(in.Keys)
				op := c02Op{Client: c, Key: k}
				switch r := rng.Intn(10); {
				case r < 4:
					op.Kind, op.Val = "w", nextVal.Add(1)
					op.Inv = now()
					acked, notApplied := doWrite(s, k, op.Val)
					op.Resp = now()
					if notApplied {
						continue
					}
					op.Known = acked
				case r < 9:
					op.Kind = "lin"
					op.Inv = now()
					v, ok := doRead(s, k, proto.ConsistencyLevel_LINEARIZABLE)
					op.Resp = now()
					if !ok {
						continue
					}
					op.Val, op.Known = v, true
				default:
					op.Kind = "strong"
					op.Inv = now()
					v, ok := doRead(s, k, proto.ConsistencyLevel_STRONG)
					op.Resp = now()
					if !ok {
						continue
					}
					op.Val, op.Known = v, true
				}
				mu.Lock()
				hist = append(hist, op)
				mu.Unlock()
				time.Sleep(time.Duration(20+rng.Intn(30)) * time.Millisecond)
			}
		}(c)
	}
	changes := 0
	gap := time.Duration(in.Millis) * time.Millisecond / time.Duration(in.Stepdowns+1)
	for i := 0; i < in.Stepdowns; i++ {
		time.Sleep(gap)
		if l := leaderStore(); l != nil {
			if err := l.Stepdown(true, ""); err == nil {
				changes++
			}
		}
	}
	time.Sleep(gap)
	close(stop)
	wg.Wait()

	// per key
	byKey := map[int][]c02Op{}
	for _, o := range hist {
		byKey[o.Key] = append(byKey[o.Key], o)
	}
	concurrentRW := false
	var bad []string
	keys := make([]int, 0, len(byKey))
	for k := range byKey {
		keys = append(keys, k)
	}
	sort.Ints(keys)
	var failing []c02Op
	for _, k := range keys {
		ops := byKey[k]
		sort.Slice(ops, func(i, j int) bool { return ops[i].Inv < ops[j].Inv })
		for _, r := range ops {
			if r.Kind == "w" {
				continue
			}
			for _, x := range ops {
				if x.Kind == "w" && x.Inv < r.Resp && r.Inv < x.Resp {
					concurrentRW = true
				}
			}
		}
		if ok, why := c02CheckKey(ops); !ok {
			bad = append(bad, why)
			if failing == nil {
				failing = ops
			}
		} else if why == "unchecked" {
			tags = append(tags, "key-too-long-unchecked")
		}
	}
	// every write call took effect at most once, the acknowledged ones exactly once
	var writes []c02Op
	for _, o := range hist {
		if o.Kind == "w" {
			writes = append(writes, o)
		}
	}
	auditSig, auditMsg := "", ""
	if l := e.c.leader(15 * time.Second); l != nil && e.c.settle(l, 10*time.Second) {
		auditSig, auditMsg = c02TagAudit(l.s, writes)
	}
	tags = append(tags, fmt.Sprintf("leader-changes=%d", changes))
	c := VCase{Input: in, Key: fmt.Sprintf("%s/%d-ops", key, len(hist)), Tags: tags, Nontrivial: changes >= 1 && concurrentRW}
	if len(bad) > 0 {
		sort.Strings(bad)
		c.Sig = "C02:non-linearizable-history:" + bad[0]
		c.OracleFail = fmt.Sprintf("%d of %d register histories have no linearization (%s); first: %s", len(bad), len(keys), strings.Join(bad, ","), vJSON(failing))
		if len(c.OracleFail) > 4000 {
			c.OracleFail = c.OracleFail[:4000]
		}
	}
	if c.OracleFail == "" && auditSig != "" {
		c.Sig, c.OracleFail = auditSig, auditMsg
	}
	w.Emit(c)
}

func TestVerif_C02(t *testing.T) {
	vcQuietLogs()
	w := vOpen()
	defer w.Close()
	env := c02NewEnv(t)
	if env == nil {
		t.Fatal("cluster did not start in three attempts")
	}
	defer env.c.close()
	if raw := vReplayInput(); raw != nil {
		var k struct {
			Kind string `json:"kind"`
		}
		json.Unmarshal(raw, &k)
		switch k.Kind {
		case "workload":
			var in c02WorkIn
			json.Unmarshal(raw, &in)
			env.workload(w, in)
		case "lag":
			var in c02TraceIn
			json.Unmarshal(raw, &in)
			env.lag(w, in)
		case "deposed-writes":
			var in c02WriteIn
			json.Unmarshal(raw, &in)
			c02RunDeposedWrites(t, w, []c02WriteIn{in}, nil)
		case "transfer-read":
			var in c02TransferIn
			json.Unmarshal(raw, &in)
			c02RunDeposedWrites(t, w, nil, []c02TransferIn{in, in})
		case "first":
			var in c02FirstIn
			json.Unmarshal(raw, &in)
			if in.Situation == "after-cut-off" {
				g := c02NewGated(t)
				if g == nil {
					w.Emit(VCase{Input: in, Key: vJSON(in), Inconcl: "gated cluster did not start"})
					return
				}
				defer g.c.close()
				c02First(w, in, g.c, g)
			} else {
				c02First(w, in, env.c, nil)
			}
		default:
			var in c02TraceIn
			json.Unmarshal(raw, &in)
			env.trace(w, in)
		}
		return
	}
	rounds := vN(2, 6)
	for r := 0; r < rounds; r++ {
		for _, in := range c02TraceInputs(r) {
			env.trace(w, in)
		}
		env.lag(w, c02TraceIn{Kind: "lag", Role: "leader", Round: r})
		if ld := env.c.leader(10 * time.Second); ld != nil {
			ld.s.Stepdown(true, "")
		}
	}
	// the first linearizable reads of a term, alone and in groups, with the strong read held up
	for r := 0; r < vN(1, 4); r++ {
		for _, in := range c02FirstInputs(r, vTier() == "thorough") {
			c02First(w, in, env.c, nil)
		}
	}
	if g := c02NewGated(t); g != nil {
		for r := 0; r < vN(1, 6); r++ {
			for _, k := range []int{2, 3, 1} {
				if k == 1 && vTier() != "thorough" {
					continue
				}
				c02First(w, c02FirstIn{Kind: "first", Situation: "after-cut-off", K: k, Hold: "commit-lag", Round: r}, g.c, g)
			}
		}
		g.c.close()
	} else {
		w.Emit(VCase{Input: c02FirstIn{Kind: "first", Situation: "after-cut-off"}, Key: "gated-cluster", Inconcl: "gated cluster did not start"})
	}
	// non-idempotent writes in flight on a leader that is deposed by its successor
	var dw []c02WriteIn
	for r := 0; r < vN(1, 8); r++ {
		dw = append(dw, c02WriteIn{Kind: "deposed-writes", K: 2, Entry: "execute", Round: r}, c02WriteIn{Kind: "deposed-writes", K: 1, Entry: "request", Round: r})
		if vTier() == "thorough" {
			dw = append(dw, c02WriteIn{Kind: "deposed-writes", K: 3, Entry: "request", Round: r}, c02WriteIn{Kind: "deposed-writes", K: 1, Entry: "execute", Round: r})
		}
	}
	var trs []c02TransferIn
	for r := 0; r < vN(1, 8); r++ {
		trs = append(trs, c02TransferIn{Kind: "transfer-read", Entry: "query", Round: r}, c02TransferIn{Kind: "transfer-read", Entry: "request", Round: r})
	}
	c02RunDeposedWrites(t, w, dw, trs)
	seed := vSeed()
	nw := vN(2, 60)
	for i := 0; i < nw; i++ {
		env.workload(w, c02WorkIn{Kind: "workload", Seed: seed*100 + int64(i), Clients: 6, Keys: 4, Millis: 5000, Stepdowns: 3})
	}
}
