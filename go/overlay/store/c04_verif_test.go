package store

// C04 driver: histories of writes, snapshots with every persist outcome, loads, boots, simulated
// follower installs, reaps and restarts on a real single-node Store.  After every step the staged
// WAL count, the snapshot catalog, FULL_NEEDED, the database restored from the newest snapshot, that
// database with the log suffix replayed, and the live database are observed.  The Coq model
// (Model/C04.v) runs the same history; the oracle (property text) is written below in Go.

import (
	"context"
	"encoding/json"
	"errors"
	"fmt"
	"io"
	"math/rand"
	"os"
	"path/filepath"
	"strings"
	"testing"
	"time"

	"github.com/hashicorp/raft"
	"github.com/rqlite/rqlite/v10/command/proto"
)

type c04Op struct {
	Kind string   `json:"kind"`           // write | snap | load | boot | install | reap | restart
	Keys []int    `json:"keys,omitempty"` // write: keys touched
	Val  int      `json:"val,omitempty"`  // write: value (0 = delete)
	Out  string   `json:"out,omitempty"`  // snap: ok | notinvoked | failbefore | failafter | blocked (a reader is stalled, Keys/Val are written, then the attempt: the checkpoint is busy)
	Data []int    `json:"data,omitempty"` // load/boot/install: cells of the incoming database
	Wal  bool     `json:"wal,omitempty"`  // load/boot: the incoming file is in WAL journal mode
	Segs []c04Seg `json:"segs,omitempty"` // install: the sender's un-reaped incremental snapshots on top of Data (each one write batch)
}

// one incremental snapshot of the sender: the cells its WAL file assigns
type c04Seg struct {
	Keys []int `json:"keys"`
	Val  int   `json:"val"`
}

type c04Input struct {
	Ops []c04Op `json:"ops"`
}

type c04Obs struct {
	Res      int // 0 done, 1 nothing to snapshot (ErrNoWALToSnapshot), 2 other error, 7 blocked, 8 not possible now, 10 incremental persist refused
	Pend     int // snapshot in flight: 0 none, 1 full, 2 incremental
	Staged   int
	Cat      []vsSnap
	CatIdx   []int    // projected index of each catalog entry (number of driver-issued log entries covered)
	Chain    [][2]int // WAL files ResolveFiles returns for the newest snapshot, in order: (owner snapshot, 0 = newest; position in it)
	FullNeed bool
	Restored []int
	Rebuilt  []int
	Live     []int
}

// a log entry issued by the driver, with the raft index it got
type c04Entry struct {
	Idx   uint64
	Stmts []string // write
	Load  []int    // load: cells of the loaded database (nil for writes / noops)
	Noop  bool
}

type c04failSink struct {
	removeDir string
}

func (m *c04failSink) Write(p []byte) (int, error) {
	if m.removeDir != "" {
		os.RemoveAll(m.removeDir)
	}
	return 0, errors.New("c04: injected sink write failure")
}
func (m *c04failSink) Close() error  { return nil }
func (m *c04failSink) ID() string    { return "c04-fail" }
func (m *c04failSink) Cancel() error { return nil }

type c04Run struct {
	n        *vsNode
	scratch  string
	entries  []c04Entry
	ndonor   int
	release  func()           // ends the stalled read started by a "stallwrite" step
	pend     raft.FSMSnapshot // snapshot created by a "begin" step and not yet persisted / released
	pendIdx  uint64
	pendTerm uint64
	spec     []int // reference: the applied state by the property text (write = upsert, load/boot/install = replace)
}

func (r *c04Run) project(idx uint64) int {
	c := 0
	for _, e := range r.entries {
		if e.Idx <= idx {
			c++
		}
	}
	return c
}

func (r *c04Run) step(op c04Op) (res int, err error) {
	s := r.n.s
	switch op.Kind {
	case "write", "stallwrite":
		if op.Kind == "stallwrite" {
			rel, err := vsStallReader(s)
			if err != nil {
				return 2, err
			}
			r.release = rel
		}
		stmts := vsCellStmts(op.Keys, op.Val)
		idx, err := r.n.exec(stmts)
		if err != nil {
			return 2, err
		}
		r.entries = append(r.entries, c04Entry{Idx: idx, Stmts: stmts})
		for _, k := range op.Keys {
			r.spec[k-1] = op.Val
		}
	case "snap":
		switch op.Out {
		case "blocked":
			if r.pend != nil {
				if r.release != nil {
					r.release()
					r.release = nil
				}
				return 8, nil
			}
			// the read was started before the preceding write ("stallwrite"), so it is not at the end of the WAL:
			// neither the TRUNCATE checkpoint of a full snapshot nor the one of an incremental snapshot can finish
			if r.release == nil {
				rel, err := vsStallReader(s)
				if err != nil {
					return 2, err
				}
				r.release = rel
			}
			err := s.Snapshot(0)
			r.release()
			r.release = nil
			switch {
			case err == nil:
				return 4, fmt.Errorf("the reader did not block the checkpoint")
			case err == ErrNoWALToSnapshot || err == ErrNothingNewToSnapshot || strings.Contains(err.Error(), ErrNoWALToSnapshot.Error()):
				return 1, nil
			}
			return 7, nil
		default:
			return 2, fmt.Errorf("snap with outcome %q must be expanded", op.Out)
		}
	case "begin":
		// fsmSnapshot, as raft's FSM goroutine calls it; the snapshot is then in flight
		if r.pend != nil {
			return 8, nil
		}
		f, err := NewFSM(s).Snapshot()
		if err != nil {
			if err == ErrNoWALToSnapshot {
				return 1, nil
			}
			return 2, err
		}
		r.pend, r.pendIdx, r.pendTerm = f, s.raft.AppliedIndex(), s.raft.CurrentTerm()
	case "persist":
		// what raft's snapshot goroutine does with it: Create, Persist, sink.Close, Release
		if r.pend == nil {
			return 8, nil
		}
		f := r.pend
		r.pend = nil
		switch op.Out {
		case "ok":
			cf := s.raft.GetConfiguration()
			if err := cf.Error(); err != nil {
				f.Release()
				return 2, err
			}
			time.Sleep(3 * time.Millisecond) // snapshot ids carry a millisecond timestamp
			sink, err := s.snapshotStore.Create(raft.SnapshotVersionMax, r.pendIdx, r.pendTerm, cf.Configuration(), 1, nil)
			if err != nil {
				f.Release()
				return 2, err
			}
			if err := f.Persist(sink); err != nil {
				sink.Cancel()
				f.Release()
				if strings.Contains(err.Error(), "full snapshot needed") {
					return 10, nil
				}
				return 2, err
			}
			if err := sink.Close(); err != nil {
				f.Release()
				return 2, err
			}
		case "failbefore":
			if f.Persist(&c04failSink{}) == nil {
				return 2, fmt.Errorf("persist to a failing sink succeeded")
			}
		case "failafter":
			if f.Persist(&c04failSink{removeDir: s.walStagingDir}) == nil {
				return 2, fmt.Errorf("persist to a failing sink succeeded")
			}
		}
		f.Release()
	case "load":
		p := filepath.Join(r.scratch, "load.db")
		if err := vsMakeDB(p, op.Data, op.Wal); err != nil {
			return 2, err
		}
		b, _ := os.ReadFile(p)
		if err := s.Load(context.Background(), &proto.LoadRequest{Data: b}); err != nil {
			return 2, err
		}
		r.entries = append(r.entries, c04Entry{Idx: s.raft.AppliedIndex(), Load: append([]int{}, op.Data...)})
		copy(r.spec, op.Data)
	case "boot":
		if r.pend != nil {
			return 8, nil // ReadFrom's own snapshot would wait for the one in flight: not a case of the model
		}
		p := filepath.Join(r.scratch, "boot.db")
		if err := vsMakeDB(p, op.Data, op.Wal); err != nil {
			return 2, err
		}
		f, err := os.Open(p)
		if err != nil {
			return 2, err
		}
		defer f.Close()
		if _, err := s.ReadFrom(f); err != nil {
			return 2, err
		}
		r.entries = append(r.entries, c04Entry{Idx: s.raft.AppliedIndex(), Noop: true})
		copy(r.spec, op.Data)
	case "install":
		if r.pend != nil {
			return 8, nil
		}
		// A sender (a real store of its own) takes a full snapshot of Data and one incremental snapshot per
		// segment, none reaped; its newest snapshot is streamed the way raft sends it (database + WAL files).
		// The receiver does what raft's installSnapshot does: Create, stream, Close, then FSM.Restore of it.
		r.ndonor++
		donor := vsNewNode(filepath.Join(r.scratch, fmt.Sprintf("donor%d", r.ndonor)), "d1")
		defer func() {
			donor.s.Close(true)
			donor.ln.Close()
			os.RemoveAll(donor.dir)
		}()
		if err := donor.openSingle(true); err != nil {
			return 2, err
		}
		stmts := []string{vsTableDDL}
		for i, v := range op.Data {
			if v != 0 {
				stmts = append(stmts, vsCellStmts([]int{i + 1}, v)...)
			}
		}
		if _, err := donor.exec(stmts); err != nil {
			return 2, err
		}
		if err := donor.s.Snapshot(0); err != nil {
			return 2, fmt.Errorf("sender full snapshot: %v", err)
		}
		final := append([]int{}, op.Data...)
		for _, sg := range op.Segs {
			if _, err := donor.exec(vsCellStmts(sg.Keys, sg.Val)); err != nil {
				return 2, err
			}
			if err := donor.s.Snapshot(0); err != nil {
				return 2, fmt.Errorf("sender incremental snapshot: %v", err)
			}
			for _, k := range sg.Keys {
				final[k-1] = sg.Val
			}
		}
		dcat := vsCatalog(donor.s.snapshotDir)
		if len(dcat) != 1+len(op.Segs) {
			return 2, fmt.Errorf("sender has %d snapshots, want %d", len(dcat), 1+len(op.Segs))
		}
		_, st, err := donor.s.snapshotStore.Open(dcat[0].ID)
		if err != nil {
			return 2, err
		}
		time.Sleep(3 * time.Millisecond) // snapshot ids carry a millisecond timestamp
		cf := s.raft.GetConfiguration()
		if err := cf.Error(); err != nil {
			st.Close()
			return 2, err
		}
		term := s.raft.CurrentTerm()
		idx := s.raft.AppliedIndex()
		sink, err := s.snapshotStore.Create(raft.SnapshotVersionMax, idx, term, cf.Configuration(), 1, nil)
		if err != nil {
			st.Close()
			return 2, err
		}
		if _, err := io.Copy(sink, st); err != nil {
			st.Close()
			sink.Cancel()
			return 2, err
		}
		st.Close()
		if err := sink.Close(); err != nil {
			return 2, err
		}
		_, rc, err := s.snapshotStore.Open(sink.ID())
		if err != nil {
			return 2, err
		}
		if err := s.fsmRestore(rc); err != nil {
			return 2, err
		}
		copy(r.spec, final)
		// every entry issued so far is covered by the installed snapshot
	case "reap":
		if _, _, err := s.Reap(); err != nil {
			return 2, err
		}
	case "restart":
		r.pend = nil // the snapshot in flight dies with the process
		if err := r.n.restart(); err != nil {
			return 2, err
		}
	default:
		return 2, fmt.Errorf("unknown op %q", op.Kind)
	}
	return 0, nil
}

func (r *c04Run) observe(res int) (c04Obs, string) {
	s := r.n.s
	o := c04Obs{Res: res}
	if r.pend != nil {
		o.Pend = 2
		if r.pend.(*FSMSnapshot).Type.IsFull() {
			o.Pend = 1
		}
	}
	st, _ := s.StagedWALs()
	o.Staged = len(st)
	o.Cat = vsCatalog(s.snapshotDir)
	for _, c := range o.Cat {
		o.CatIdx = append(o.CatIdx, r.project(c.Index))
	}
	o.FullNeed = vsFileExists(filepath.Join(s.snapshotDir, "FULL_NEEDED"))
	o.Live = r.n.dump()
	note := ""
	o.Chain = vsResolvedChain(s.snapshotDir, o.Cat)
	dst := filepath.Join(r.scratch, "restored.db")
	os.Remove(dst)
	os.Remove(dst + "-wal")
	os.Remove(dst + "-shm")
	ok, idx, err := vsRestoreNewest(s.snapshotStore, s.snapshotDir, dst)
	switch {
	case !ok:
		// empty store: a restart rebuilds from an empty database and the whole log
		if err := vsMakeDB(dst, nil, true); err != nil {
			note = "scratch: " + err.Error()
		}
		o.Restored = make([]int, vsKeys)
		vsExecFile(dst, []string{"DROP TABLE t"})
	case err != nil:
		note = "restore of newest snapshot failed: " + err.Error()
		o.Restored = vsDumpRows(nil, err)
		o.Rebuilt = o.Restored
		return o, note
	default:
		o.Restored = vsDumpFile(dst)
		if ic := vsIntegrity(dst); ic != "ok" {
			note = "integrity_check of restored snapshot: " + ic
		}
	}
	// replay of the log suffix, by the oracle (plain SQL on the scratch copy; a load replaces the file)
	for _, e := range r.entries {
		if ok && e.Idx <= idx {
			continue
		}
		switch {
		case e.Noop:
		case e.Load != nil:
			os.Remove(dst + "-wal")
			os.Remove(dst + "-shm")
			if err := vsMakeDB(dst, e.Load, true); err != nil {
				note = "scratch load: " + err.Error()
			}
		default:
			if err := vsExecFile(dst, e.Stmts); err != nil {
				note = "replay on restored snapshot failed: " + err.Error()
			}
		}
	}
	o.Rebuilt = vsDumpFile(dst)
	return o, note
}

func c04Eq(a, b []int) bool {
	if len(a) != len(b) {
		return false
	}
	for i := range a {
		if a[i] != b[i] {
			return false
		}
	}
	return true
}

func c04CoqOp(op c04Op) string {
	switch op.Kind {
	case "write", "stallwrite":
		return fmt.Sprintf("(OWrite %s %s)", vsCoqNList(op.Keys), coqN(uint64(op.Val)))
	case "snap":
		return "OSnapBlocked"
	case "begin":
		return "OSnapBegin"
	case "persist":
		return "(OSnapPersist " + map[string]string{"ok": "POk", "notinvoked": "PNotInvoked", "failbefore": "PFailBefore", "failafter": "PFailAfter"}[op.Out] + ")"
	case "load":
		return "(OLoad " + vsCoqNList(op.Data) + ")"
	case "boot":
		return "(OBoot " + vsCoqNList(op.Data) + ")"
	case "install":
		segs := make([]string, len(op.Segs))
		for i, sg := range op.Segs {
			segs[i] = coqPair(vsCoqNList(sg.Keys), coqN(uint64(sg.Val)))
		}
		return "(OInstall " + vsCoqNList(op.Data) + " " + coqList(segs) + ")"
	case "reap":
		return "OReap"
	case "restart":
		return "ORestart"
	}
	return "OReap"
}

func c04CoqObs(o c04Obs) string {
	cat := make([]string, len(o.Cat))
	for i, c := range o.Cat {
		cat[i] = fmt.Sprintf("(%s, %s, %s)", coqBool(c.Full), coqN(uint64(o.CatIdx[i])), coqN(uint64(c.NWal)))
	}
	chain := make([]string, len(o.Chain))
	for i, c := range o.Chain {
		chain[i] = coqPair(coqN(uint64(c[0])), coqN(uint64(c[1])))
	}
	return fmt.Sprintf("{| o_res := %s; o_pend := %s; o_staged := %s; o_cat := %s; o_chain := %s; o_full := %s; o_restored := %s; o_rebuilt := %s; o_live := %s |}",
		coqN(uint64(o.Res)), coqN(uint64(o.Pend)), coqN(uint64(o.Staged)), coqList(cat), coqList(chain), coqBool(o.FullNeed), vsCoqNList(o.Restored), vsCoqNList(o.Rebuilt), vsCoqNList(o.Live))
}

// c04Nontrivial: (a) >= 1 non-ok persist outcome of an incremental snapshot that leaves a staged WAL, later a
// change of base (full snapshot, load, boot, install), and an incremental snapshot after that; or (b) a load applied
// while a snapshot is in flight (between fsmSnapshot and its persist), that snapshot persisted, and a later snapshot.
func c04Nontrivial(obs []c04Obs, ops []c04Op) bool {
	stage := 0
	inflight, loadedInflight, persistedAfterLoad := false, false, false
	for i, op := range ops {
		if i >= len(obs) {
			break
		}
		switch op.Kind {
		case "begin":
			inflight = obs[i].Res == 0
		case "load":
			if inflight {
				loadedInflight = true
			}
		case "persist":
			if persistedAfterLoad && op.Out == "ok" && obs[i].Res == 0 {
				return true
			}
			if inflight && loadedInflight && op.Out == "ok" && obs[i].Res == 0 {
				persistedAfterLoad = true
			}
			inflight, loadedInflight = false, false
		case "restart":
			inflight, loadedInflight = false, false
		}
		switch stage {
		case 0:
			if op.Kind == "persist" && op.Out != "ok" && obs[i].Res == 0 && obs[i].Staged > 0 {
				stage = 1
			}
		case 1:
			if op.Kind == "load" || op.Kind == "boot" || op.Kind == "install" {
				stage = 2
			}
			if op.Kind == "persist" && obs[i].Res == 0 && len(obs[i].Cat) > 0 && obs[i].Cat[0].Full && (i == 0 || len(obs[i].Cat) > len(obs[i-1].Cat)) {
				stage = 2
			}
		case 2:
			if op.Kind == "persist" && op.Out == "ok" && obs[i].Res == 0 && len(obs[i].Cat) > 0 && !obs[i].Cat[0].Full {
				return true
			}
		}
	}
	return false
}

// a snapshot is two steps of the model (fsmSnapshot, then the persist with its outcome); a blocked attempt that
// carries a write is the write (made while a reader is already stalled) and the attempt
func c04Expand(ops []c04Op) []c04Op {
	var out []c04Op
	for _, op := range ops {
		if op.Kind == "snap" && op.Out == "blocked" && len(op.Keys) > 0 {
			out = append(out, c04Op{Kind: "stallwrite", Keys: op.Keys, Val: op.Val}, c04Op{Kind: "snap", Out: "blocked"})
			continue
		}
		if op.Kind == "snap" && op.Out != "blocked" {
			out = append(out, c04Op{Kind: "begin"}, c04Op{Kind: "persist", Out: op.Out})
			continue
		}
		out = append(out, op)
	}
	return out
}

func c04RunCase(in c04Input, base string, seq int) VCase {
	return vsRetry(func(attempt int) VCase { return c04RunOnce(in, base, seq*2+attempt) })
}

func c04RunOnce(in c04Input, base string, seq int) VCase {
	dir := filepath.Join(base, fmt.Sprintf("n%d", seq))
	scratch := filepath.Join(base, fmt.Sprintf("s%d", seq))
	os.MkdirAll(scratch, 0755)
	defer os.RemoveAll(dir)
	defer os.RemoveAll(scratch)
	n := vsNewNode(dir, "n1")
	defer func() { n.ln.Close() }()
	key := vJSON(in)
	if err := n.openSingle(true); err != nil {
		return VCase{Input: in, Key: key, Inconcl: "node did not start: " + err.Error()}
	}
	defer func() { n.s.Close(true) }()
	r := &c04Run{n: n, scratch: scratch, spec: make([]int, vsKeys)}
	// every history starts with the table
	idx, err := n.exec([]string{vsTableDDL})
	if err != nil {
		return VCase{Input: in, Key: key, Inconcl: "create table: " + err.Error()}
	}
	r.entries = append(r.entries, c04Entry{Idx: idx, Stmts: []string{vsTableDDL}})

	var obs []c04Obs
	fail, sig := "", ""
	tags := map[string]bool{}
	ops := c04Expand(in.Ops)
	defer func() {
		if r.release != nil {
			r.release()
		}
	}()
	for i, op := range ops {
		res, err := r.step(op)
		if res == 4 {
			return VCase{Input: in, Key: key, Inconcl: fmt.Sprintf("step %d (%s): %v", i, op.Kind, err)}
		}
		if res == 2 && fail == "" && vsTransient(err) {
			return VCase{Input: in, Key: key, Inconcl: fmt.Sprintf("step %d (%s): %v", i, op.Kind, err)}
		}
		if res == 2 {
			if fail != "" { // the property was already seen to fail at an earlier step: that is the finding
				return VCase{Input: in, Key: key, OracleFail: fail + fmt.Sprintf(" (then step %d (%s) failed: %v)", i, op.Kind, err), Sig: sig}
			}
			return VCase{Input: in, Key: key, OracleFail: fmt.Sprintf("step %d (%s) failed: %v", i, op.Kind, err), Sig: "C04:step-error:" + op.Kind}
		}
		o, note := r.observe(res)
		obs = append(obs, o)
		tags[op.Kind+op.Out] = true
		if fail == "" {
			switch {
			case !c04Eq(o.Live, r.spec):
				fail = fmt.Sprintf("after step %d (%s): live database %v differs from the applied history %v", i, op.Kind, o.Live, r.spec)
				sig = "C04:live-differs-from-applied"
			case !c04Eq(o.Rebuilt, o.Live):
				fail = fmt.Sprintf("after step %d (%s%s): newest snapshot + log suffix gives %v, live database is %v (%s)", i, op.Kind, op.Out, o.Rebuilt, o.Live, note)
				sig = "C04:rebuild-differs-from-live"
			case note != "":
				fail = fmt.Sprintf("after step %d (%s): %s", i, op.Kind, note)
				sig = "C04:restore-error"
			}
		}
	}
	coqOps := make([]string, len(ops))
	for i, op := range ops {
		coqOps[i] = c04CoqOp(op)
	}
	coqObs := make([]string, len(obs))
	for i, o := range obs {
		coqObs[i] = c04CoqObs(o)
	}
	c := VCase{Input: in, Key: key, Coq: fmt.Sprintf("{| c_ops := %s; c_obs := %s |}", coqList(coqOps), coqList(coqObs)),
		Nontrivial: c04Nontrivial(obs, ops)}
	for t := range tags {
		c.Tags = append(c.Tags, t)
	}
	if c.Nontrivial {
		c.Tags = append(c.Tags, "stale-staging-then-base-change-then-incremental")
	}
	if fail != "" {
		c.OracleFail, c.Sig = fail, sig
	}
	return c
}

// c04RunAll runs the histories on a small pool of workers (one private node per history) and emits the
// cases in input order.
func c04RunAll(w *vWriter, ins []c04Input, base string, run func(in c04Input, base string, seq int) VCase) {
	out := make([]VCase, len(ins))
	sem := make(chan struct{}, 8)
	done := make(chan int, len(ins))
	for i := range ins {
		go func(i int) {
			sem <- struct{}{}
			defer func() { <-sem; done <- i }()
			out[i] = run(ins[i], base, i)
		}(i)
	}
	for range ins {
		<-done
	}
	for _, c := range out {
		w.Emit(c)
	}
}

func c04RandCells(rng *rand.Rand, base int) []int {
	c := make([]int, vsKeys)
	for i := range c {
		if rng.Intn(3) > 0 {
			c[i] = base + rng.Intn(5)
		}
	}
	return c
}

func c04RandKeys(rng *rand.Rand) []int {
	n := 1 + rng.Intn(3)
	if rng.Intn(3) == 0 {
		n = 6 + rng.Intn(10) // page-heavy batch
	}
	seen := map[int]bool{}
	var ks []int
	for len(ks) < n {
		k := 1 + rng.Intn(vsKeys)
		if !seen[k] {
			seen[k] = true
			ks = append(ks, k)
		}
	}
	return ks
}

func c04Gen(rng *rand.Rand, maxOps int) c04Input {
	var ops []c04Op
	val := 1
	cur := make([]int, vsKeys) // the applied state, so that a delete always removes something
	w := func() c04Op {
		val++
		ks := c04RandKeys(rng)
		if rng.Intn(8) == 0 {
			var present []int
			for _, k := range ks {
				if cur[k-1] != 0 {
					present = append(present, k)
				}
			}
			if len(present) > 0 {
				for _, k := range present {
					cur[k-1] = 0
				}
				return c04Op{Kind: "write", Keys: present, Val: 0}
			}
		}
		for _, k := range ks {
			cur[k-1] = val
		}
		return c04Op{Kind: "write", Keys: ks, Val: val}
	}
	outs := []string{"ok", "ok", "ok", "notinvoked", "failbefore", "failafter"}
	first := c04RandKeys(rng)
	for _, k := range first {
		cur[k-1] = 1
	}
	ops = append(ops, c04Op{Kind: "write", Keys: first, Val: 1}, c04Op{Kind: "snap", Out: "ok"})
	n := 4 + rng.Intn(maxOps-5)
	for len(ops) < n {
		switch x := rng.Intn(20); {
		case x < 2:
			// a snapshot in flight while entries are applied: fsmSnapshot, then writes / a load / a reap, then the persist
			ops = append(ops, c04Op{Kind: "begin"})
			for k := rng.Intn(3); k >= 0; k-- {
				switch rng.Intn(5) {
				case 0, 1:
					val += 10
					copy(cur, c04RandCells(rng, val))
					ops = append(ops, c04Op{Kind: "load", Data: append([]int{}, cur...), Wal: rng.Intn(2) == 0})
				case 2:
					ops = append(ops, c04Op{Kind: "reap"})
				default:
					ops = append(ops, w())
				}
			}
			ops = append(ops, c04Op{Kind: "persist", Out: outs[rng.Intn(len(outs))]})
		case x < 7:
			ops = append(ops, w())
		case x < 13:
			o := outs[rng.Intn(len(outs))]
			if rng.Intn(5) == 0 {
				// a reader is stalled, a batch (mostly other rows than the batches before) is written, then the attempt:
				// the checkpoint is busy whether the snapshot is full or incremental, whatever is already staged
				bw := w()
				for bw.Val == 0 {
					bw = w()
				}
				ops = append(ops, c04Op{Kind: "snap", Out: "blocked", Keys: bw.Keys, Val: bw.Val})
				continue
			}
			ops = append(ops, c04Op{Kind: "snap", Out: o})
		case x < 14:
			val += 10
			copy(cur, c04RandCells(rng, val))
			ops = append(ops, c04Op{Kind: "load", Data: append([]int{}, cur...), Wal: rng.Intn(2) == 0})
		case x < 15:
			val += 10
			copy(cur, c04RandCells(rng, val))
			ops = append(ops, c04Op{Kind: "boot", Data: append([]int{}, cur...), Wal: rng.Intn(2) == 0})
		case x < 17:
			val += 10
			copy(cur, c04RandCells(rng, val))
			op := c04Op{Kind: "install", Data: append([]int{}, cur...)}
			for k := rng.Intn(4); k > 0; k-- { // the sender's chain: full + 0..3 un-reaped incrementals
				val++
				sg := c04Seg{Keys: c04RandKeys(rng), Val: val}
				for _, key := range sg.Keys {
					cur[key-1] = val
				}
				op.Segs = append(op.Segs, sg)
			}
			ops = append(ops, op)
			// the receiver goes on from the installed chain: own writes over the same rows, own incrementals, reap, rebuild
			for k := 1 + rng.Intn(3); k > 0 && len(ops) < n; k-- {
				ops = append(ops, w())
				switch rng.Intn(4) {
				case 0:
					ops = append(ops, c04Op{Kind: "reap"})
				case 1:
					ops = append(ops, c04Op{Kind: "snap", Out: "notinvoked"})
				default:
					ops = append(ops, c04Op{Kind: "snap", Out: "ok"})
				}
			}
		case x < 18:
			ops = append(ops, c04Op{Kind: "reap"})
		default:
			ops = append(ops, c04Op{Kind: "restart"})
		}
	}
	return c04Input{Ops: ops}
}

// hand-picked histories: the stale-staging shapes of the defect record, one per kind of base change
func c04Corpus() []c04Input {
	all := func(v int) []int {
		c := make([]int, vsKeys)
		for i := range c {
			c[i] = v
		}
		return c
	}
	keys := func(a, b int) []int {
		var ks []int
		for k := a; k <= b; k++ {
			ks = append(ks, k)
		}
		return ks
	}
	W := func(a, b, v int) c04Op { return c04Op{Kind: "write", Keys: keys(a, b), Val: v} }
	S := func(o string) c04Op { return c04Op{Kind: "snap", Out: o} }
	var out []c04Input
	for _, stale := range []string{"notinvoked", "failbefore"} {
		pre := []c04Op{W(1, vsKeys, 1), S("ok"), W(1, vsKeys, 2), S(stale)}
		post := []c04Op{W(1, 2, 4), S("ok"), {Kind: "restart"}, W(3, 3, 5), S("ok"), {Kind: "reap"}}
		for _, mid := range [][]c04Op{
			{{Kind: "load", Data: all(3), Wal: true}, S("ok")},
			{{Kind: "load", Data: all(3), Wal: false}, W(5, 9, 6), S("ok")},
			{{Kind: "boot", Data: all(3), Wal: true}},
			{{Kind: "install", Data: all(3)}},
			{W(1, vsKeys, 3), S("failafter"), S("ok")},
		} {
			ops := append(append(append([]c04Op{}, pre...), mid...), post...)
			out = append(out, c04Input{Ops: ops})
		}
	}
	// a chain "full + k incrementals" installed from a sender that has not reaped, then the receiver's own writes
	// over the same rows, its own incremental snapshots, a reap and restarts, in different orders
	G := func(a, b, v int) c04Seg { return c04Seg{Keys: keys(a, b), Val: v} }
	for k := 0; k <= 3; k++ {
		segs := []c04Seg{G(1, 10, 2), G(6, 16, 3), G(1, 4, 4)}[:k]
		inst := c04Op{Kind: "install", Data: all(1), Segs: segs}
		out = append(out,
			c04Input{Ops: []c04Op{W(1, 3, 9), S("ok"), inst, W(2, 12, 5), S("ok"), W(8, 20, 6), S("ok"), {Kind: "restart"}, {Kind: "reap"}, W(1, 2, 7), S("ok"), {Kind: "restart"}}},
		)
	}
	out = append(out,
		c04Input{Ops: []c04Op{W(1, 3, 9), S("ok"), {Kind: "install", Data: all(1), Segs: []c04Seg{G(1, 10, 2), G(6, 16, 3)}}, {Kind: "reap"}, W(2, 12, 5), S("ok"), {Kind: "restart"}, W(3, 9, 6), S("notinvoked"), W(4, 5, 7), S("ok"), {Kind: "reap"}}},
		c04Input{Ops: []c04Op{{Kind: "install", Data: all(1), Segs: []c04Seg{G(1, 24, 2)}}, W(1, 24, 3), S("failbefore"), W(1, 12, 4), S("ok"), {Kind: "install", Data: all(5), Segs: []c04Seg{G(3, 9, 6), G(5, 14, 7), G(1, 6, 8)}}, W(4, 10, 9), S("ok"), {Kind: "reap"}, {Kind: "restart"}}},
	)
	// a busy checkpoint on the INCREMENTAL path while segments staged by earlier unpersisted attempts are present:
	// the failed attempt must leave the staging directory as it was (nothing new, nothing old removed); every batch
	// touches different rows, so a lost segment shows in the rebuilt database
	B := func(a, b, v int) c04Op { return c04Op{Kind: "snap", Out: "blocked", Keys: keys(a, b), Val: v} }
	for _, unpersisted := range [][]c04Op{
		{W(5, 8, 2), S("notinvoked")},
		{W(5, 8, 2), S("failbefore")},
		{W(5, 6, 2), S("notinvoked"), W(7, 8, 3), S("failbefore")},
		{},
	} {
		ops := []c04Op{W(1, 4, 1), S("ok")}
		ops = append(ops, unpersisted...)
		ops = append(ops, B(9, 12, 4), W(13, 16, 5), S("ok"), c04Op{Kind: "restart"}, B(17, 20, 6), B(21, 22, 7), S("notinvoked"), B(23, 24, 8), W(1, 2, 9), S("ok"), c04Op{Kind: "reap"})
		out = append(out, c04Input{Ops: ops})
	}
	// a LOAD applied while a snapshot is in flight (fsmSnapshot done, persist not yet): the close of the older full
	// snapshot clears the FULL_NEEDED the load has set; then snapshot attempts that are skipped / blocked / fail, and
	// the next snapshots; also an incremental snapshot in flight (its persist is refused), and writes in flight
	Bg, P := c04Op{Kind: "begin"}, func(o string) c04Op { return c04Op{Kind: "persist", Out: o} }
	L := func(v int) c04Op { return c04Op{Kind: "load", Data: all(v), Wal: v%2 == 1} }
	for _, tail := range [][]c04Op{
		{W(2, 3, 4), S("ok"), W(4, 5, 5), S("ok")},
		{W(2, 3, 4), S("notinvoked"), W(4, 5, 5), S("ok"), W(6, 7, 6), S("ok")},
		{B(2, 3, 4), W(4, 5, 5), S("ok"), W(6, 7, 6), S("ok")},
		{W(2, 3, 4), S("failbefore"), W(4, 5, 5), S("ok")},
	} {
		first := append([]c04Op{W(1, vsKeys, 1), Bg, L(3), P("ok")}, tail...) // the first snapshot of a node is a full one
		first = append(first, c04Op{Kind: "restart"}, c04Op{Kind: "reap"})
		later := append([]c04Op{W(1, vsKeys, 1), S("ok"), L(2), W(1, 2, 9), Bg, W(3, 4, 8), L(3), W(5, 5, 7), P("notinvoked")}, tail...) // a later full one, not persisted
		incr := append([]c04Op{W(1, vsKeys, 1), S("ok"), W(1, 2, 9), Bg, W(3, 4, 8), L(3), P("ok")}, tail...)                            // an incremental one: its persist is refused
		out = append(out, c04Input{Ops: first}, c04Input{Ops: later}, c04Input{Ops: incr})
	}
	// snapshot attempts that fail (each refreshes the in-memory "database file modified" time) between a load
	// and the next successful snapshot: only the durable FULL_NEEDED flag still says that a full one is due
	for _, failing := range [][]c04Op{{S("notinvoked")}, {S("blocked")}, {S("failbefore")}, {S("blocked"), S("notinvoked")}} {
		ops := []c04Op{W(1, vsKeys, 1), S("ok"), {Kind: "load", Data: all(3), Wal: true}, W(1, 4, 5)}
		ops = append(ops, failing...)
		ops = append(ops, W(5, 6, 6), S("ok"), W(7, 7, 7), S("ok"), c04Op{Kind: "restart"})
		out = append(out, c04Input{Ops: ops})
	}
	out = append(out,
		c04Input{Ops: []c04Op{W(1, 3, 1), {Kind: "restart"}, W(2, 4, 2), S("ok"), W(1, 1, 3), {Kind: "restart"}, S("ok"), {Kind: "reap"}, {Kind: "restart"}}},
		c04Input{Ops: []c04Op{S("ok"), S("ok"), W(1, 8, 2), S("notinvoked"), S("ok"), W(1, 8, 3), S("failbefore"), W(2, 9, 4), S("notinvoked"), S("ok"), {Kind: "reap"}, {Kind: "restart"}}},
	)
	return out
}

func TestVerif_C04(t *testing.T) {
	w := vOpen()
	defer w.Close()
	rng := vRand()
	base, err := os.MkdirTemp("", "c04-")
	if err != nil {
		t.Fatal(err)
	}
	defer os.RemoveAll(base)
	if raw := vReplayInput(); raw != nil {
		var in c04Input
		if err := json.Unmarshal(raw, &in); err != nil {
			t.Fatal(err)
		}
		w.Emit(c04RunCase(in, base, 0))
		return
	}
	ins := c04Corpus()
	n := vN(8, 1500)
	maxOps := 12
	if vTier() == "thorough" {
		maxOps = 30
	}
	for i := 0; i < n; i++ {
		ins = append(ins, c04Gen(rng, maxOps))
	}
	c04RunAll(w, ins, base, c04RunCase)
}
