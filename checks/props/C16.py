# C16 — configuration read by bin/check (see checks/registry.py)
SPEC = dict(
    title="Read consistency levels behave as documented",
    pkg="./store", files=["store/c16_verif_test.go", "store/c02_cluster_verif_test.go"],
    model="Model.C16",
    case_preamble="Open Scope string_scope.\nOpen Scope Z_scope.\n",
    rule="staleness: the full boundary grid of IsStaleRead (5 freshness values x 5 last-contact classes x strict x appended-zero x 5 deltas around the bound x 4 index pairs = 2000 points), "
         "non-trivial when strict and behind (appended time set, FSM index != command commit index, freshness set); "
         "dispatch: every combination of role {leader, follower voter, non-voter} x entry {Query, Request read-only, Request write, Request mixed} x 5 levels x "
         "6 freshness/strict steerings, plus first-read-in-term and not-ready variants (540 live calls on a 3 voters + 1 non-voter in-process cluster), "
         "then role histories: one non-leader node changes role while running (removed and re-joined as voter / non-voter, promoted / demoted in place via Join; 9 changes quick, 12 histories thorough) "
         "with a battery of 21 calls (3 entry forms x auto/weak/none/linearizable x 2 freshness settings) before and after every change, judged against its current role; "
         "non-trivial when the serving node is not the leader; distinct by input JSON (incl. the role history)",
    exhaustive=True,
    trusted=["hashicorp/raft State/VerifyLeader/LastContact/GetConfiguration are observed, not modelled",
             "the driver's projection of a live call: error class, raft log growth on the node, reported level, strongReadTerm, verify counters",
             "IsVoter() failing (raft shutting down) and raft.Apply losing leadership mid-request are outside the dispatch model"],
    assumptions=["time.Since(last contact) is compared with the bound at a 2 s margin (the exact-equality point of a running clock cannot be hit); the applied-minus-appended delta is exercised exactly at bound-1, bound, bound+1"],
    level_text="Theorems C16_is_stale_spec (iff the documented rule), C16_weak_only_on_leader, C16_auto_is_weak_on_voter_none_on_nonvoter (+ per entry point), "
               "C16_none_refused_iff_stale and C16_lin_ok_implies hold for every node observation and request (no bound); the model's store_is_stale and dispatch are the functions "
               "evaluated on the driver's cases.",
    level_note="Model = IsStaleRead, Store.isStaleRead, level dispatch of Store.Query and Store.Request, waitForLinearizableRead (shared Model/C02_ReadIndex.v) transcribed; "
               "tie = exhaustive staleness grid on the real function + live 4-node cluster dispatch for all combinations; raft itself observed.",
    technique="Coq proofs of the documented rules over all inputs + exhaustive grid / live-cluster differential run with an independent Go oracle",
    design_ref="6/C16",
    timeout_quick=400, timeout_thorough=3000, shard=300,
)
