(* C17 — property theorems only.  `ro_pool_inert` (a mode=ro + query_only connection changes
   nothing) and `honest` (a statement sqlite3_stmt_readonly calls read-only changes nothing) are
   what is assumed of SQLite; explicit premises. *)
From Coq Require Import List.
From RQ Require Import Model.C13 Model.C17 Proofs.C17.
Import ListNotations.

(* No query-endpoint request, at any level, changes the database of any node. *)
Theorem C17_query_endpoint_never_writes :
  forall (D E : Type) (run : pool -> sub E -> D -> D), ro_pool_inert run ->
  forall (lv : level) (req : request E) (d : D),
    match store_query D lv req with
    | Local => serve_local run req d = d
    | ViaLog e => e = EnQuery D req /\ apply_entry run e d = d
    end.
Proof. exact query_endpoint_never_writes. Qed.
Print Assumptions C17_query_endpoint_never_writes.

(* "No statement a unified request treats as read-only changes the database" is FALSE for the
   pinned code (finding C17:unified-ro-head-rw-tail): witness "SELECT 1; DELETE FROM t WHERE id = 1". *)
Theorem C17_unified_ro_never_writes_refuted :
  exists (run : pool -> sub (list rowop) -> table -> table) (t : text (list rowop)) (d : table),
    ro_pool_inert run /\ Forall (honest run) (subs_of t) /\ treated_ro t /\
    request_text run t d <> d /\
    store_request table LvStrong [t] = ViaLog (EnExecuteQuery table [t]) /\
    apply_entry run (EnExecuteQuery table [t]) d <> d.
Proof. exact unified_ro_never_writes_refuted. Qed.
Print Assumptions C17_unified_ro_never_writes_refuted.

(* What holds of the unified endpoint: served locally it never writes ... *)
Theorem C17_unified_local_never_writes_partial :
  forall (D E : Type) (run : pool -> sub E -> D -> D), ro_pool_inert run ->
  forall (lv : level) (req : request E) (d : D),
    store_request D lv req = Local -> serve_local run req d = d.
Proof. exact unified_local_never_writes. Qed.
Print Assumptions C17_unified_local_never_writes_partial.

(* ... and through the log, the texts it treats as read-only contribute nothing provided their
   LAST statement is read-only (in particular every single-statement text). *)
Theorem C17_unified_ro_never_writes_partial :
  forall (D E : Type) (run : pool -> sub E -> D -> D) (req : request E) (d : D),
    Forall (fun t => Forall (honest run) (subs_of t)) req ->
    Forall (fun t => treated_ro t -> last_ro t) req ->
    db_request run req d = db_request run (filter (fun t => negb (treated_ro_b t)) req) d.
Proof. exact unified_ro_never_writes_partial. Qed.
Print Assumptions C17_unified_ro_never_writes_partial.

(* A node's database changes only by applying log entries, installing a snapshot, or boot;
   a load is a log entry. *)
Theorem C17_db_changes_only_via_log_snapshot_boot_load :
  forall (D E : Type) (run : pool -> sub E -> D -> D), ro_pool_inert run ->
  forall (evs : list (event D E)) (c : cluster D E) (i : nat),
    Forall (fun ev => ~ touches ev i) evs ->
    nth_error (c_dbs (fold_left (step run) evs c)) i = nth_error (c_dbs c) i.
Proof. exact db_changes_only_via_log_snapshot_boot_load. Qed.
Print Assumptions C17_db_changes_only_via_log_snapshot_boot_load.

Theorem C17_load_is_logged :
  forall (D E : Type) (run : pool -> sub E -> D -> D) (c : cluster D E) (i : nat) (d : D),
    step run c (EvLoad i d) = {| c_log := c_log c ++ [EnLoad E d]; c_dbs := c_dbs c |}.
Proof. exact load_is_logged. Qed.
Print Assumptions C17_load_is_logged.

(* Histories of API calls on a live node (Model.C17, Section History): whatever operations ran
   before and wherever they stopped, every pooled read-only connection still has query_only set ... *)
Theorem C17_ro_pool_invariant :
  forall (D E : Type) (run_at : bool -> pool -> sub E -> D -> D)
         (ops : list (nat * hop E)) (st : hstate D),
    h_ok st = true -> h_ok (hrun run_at st ops) = true.
Proof. exact ro_pool_invariant. Qed.
Print Assumptions C17_ro_pool_invariant.

(* ... so reads, refused requests, backups and snapshots never change the contents, over any history *)
Theorem C17_history_reads_never_write :
  forall (D E : Type) (run_at : bool -> pool -> sub E -> D -> D), ro_pool_inert (run_at true) ->
  forall (ops : list (nat * hop E)) (st : hstate D),
    h_ok st = true ->
    Forall (fun eo => may_write D (snd eo) = false) ops ->
    h_db (hrun run_at st ops) = h_db st.
Proof. exact history_reads_never_write. Qed.
Print Assumptions C17_history_reads_never_write.

Theorem C17_history_step_inert :
  forall (D E : Type) (run_at : bool -> pool -> sub E -> D -> D), ro_pool_inert (run_at true) ->
  forall (ops : list (nat * hop E)) (st : hstate D) (exit : nat) (op : hop E),
    h_ok st = true -> may_write D op = false ->
    h_db (fst (hstep run_at exit (hrun run_at st ops) op)) = h_db (hrun run_at st ops).
Proof. exact history_step_inert. Qed.
Print Assumptions C17_history_step_inert.

(* a Store operation that did not grow the log did not change the contents *)
Theorem C17_change_needs_log_entry :
  forall (D E : Type) (run_at : bool -> pool -> sub E -> D -> D), ro_pool_inert (run_at true) ->
  forall (op : hop E) (d : D),
    store_op op = true -> snd (hop_effect run_at true op d) = false ->
    fst (hop_effect run_at true op d) = d.
Proof. exact change_needs_log_entry. Qed.
Print Assumptions C17_change_needs_log_entry.
