(* C21 — model of the backup paths (fixed tree: dump inside one read transaction, cluster client
   follows the gzip framing, HTTP handler aborts a response that fails after its first byte).
     store/store.go    Store.Backup: binary = pre-backup snapshot, snapshot gate (snapshotCAS), copy of the main file;
                       vacuum / DELETE format = db.Backup (SQLite online backup API, Step(-1)); sql = db.Dump
     db/db.go          Dump (BEGIN; one query per table; ROLLBACK), copyDatabaseConnection
     cluster/service.go, cluster/client.go   BACKUP_STREAM framing: length-prefixed response, then one gzip stream
     http/service.go   handleBackup: status is committed with the first body byte
   Executable definitions only; proofs are in Proofs/C21.v.

   Part 1 is a small-step model of one backup running against an arbitrary schedule of writer commits and
   background checkpoints.  A database state is identified by the number of committed transactions. *)
From Coq Require Import List NArith Bool.
Import ListNotations.
Open Scope N_scope.

Inductive fmt := FBinary | FSql | FDelete.

Record world := {
  k : N;                       (* transactions committed so far *)
  m : N;                       (* version held by the main database file (WAL mode: changed by checkpoints only) *)
  gate : bool;                 (* snapshot gate held by the backup *)
  snap : option (option N);    (* dump connection: in a read transaction? with which snapshot? *)
  out : list N                 (* versions of the pieces the backup has read so far *)
}.

Definition set_k w v := {| k := v; m := m w; gate := gate w; snap := snap w; out := out w |}.
Definition set_m w v := {| k := k w; m := v; gate := gate w; snap := snap w; out := out w |}.
Definition set_gate w v := {| k := k w; m := m w; gate := v; snap := snap w; out := out w |}.
Definition set_snap w v := {| k := k w; m := m w; gate := gate w; snap := v; out := out w |}.
Definition emit w v := {| k := k w; m := m w; gate := gate w; snap := snap w; out := out w ++ [v] |}.

(* what happens between two steps of the backup *)
Inductive ev :=
| ECommit        (* the writer commits a transaction (goes to the WAL) *)
| ECheckpoint    (* a Raft snapshot checkpoints the WAL into the main file; it needs the snapshot gate *)
| EStep.         (* the backup performs its next step *)

Definition env_step (e : ev) (w : world) : world :=
  match e with
  | ECommit => set_k w (k w + 1)
  | ECheckpoint => if gate w then w else set_m w (k w)
  | EStep => w
  end.

(* ---- binary backup (no vacuum): Snapshot; BeginWithRetry("backup"); io.Copy(main file) in chunks; End *)
Inductive bphase := BSnap | BGate | BCopy (left : nat) | BDone.

Definition bin_step (gated snap_ok : bool) (chunks : nat) (s : world * bphase) : world * bphase :=
  let '(w, ph) := s in
  match ph with
  | BSnap => ((if snap_ok && negb (gate w) then set_m w (k w) else w), BGate)
  | BGate => (set_gate w gated, BCopy chunks)
  | BCopy (S j) => (emit w (m w), BCopy j)
  | BCopy O => (set_gate w false, BDone)
  | BDone => s
  end.

(* ---- SQL dump: a list of `queries` queries on one connection — the table list, one per table for its rows, and
   finally the one for indexes, triggers and views — each reading some version.  BEGIN (deferred: the snapshot
   is taken by the first read) ... ROLLBACK brackets the first `covered` of them; queries after the bracket run
   in autocommit mode.  The code brackets all of them: covered = queries. *)
Inductive dphase := DBegin | DRead (left : nat) | DDone.

Definition read_version (w : world) : N :=
  match snap w with Some (Some v) => v | _ => k w end.

Definition dump_step (covered queries : nat) (s : world * dphase) : world * dphase :=
  let '(w, ph) := s in
  match ph with
  | DBegin => ((if Nat.ltb 0 covered then set_snap w (Some None) else w), DRead queries)
  | DRead (S j) =>
      if Nat.ltb (queries - S j) covered then
        let v := read_version w in
        let w1 := match snap w with Some None => set_snap w (Some (Some v)) | _ => w end in
        (emit w1 v, DRead j)
      else
        (* the bracket is closed: ROLLBACK has released the snapshot, the query sees the current state *)
        (emit (set_snap w None) (k w), DRead j)
  | DRead O => (set_snap w None, DDone)
  | DDone => s
  end.

(* ---- vacuum / DELETE format: sqlite3_backup_step(-1) copies every page inside one read transaction *)
Inductive ophase := OStep | ODone.
Definition online_step (s : world * ophase) : world * ophase :=
  let '(w, ph) := s in
  match ph with
  | OStep => (emit w (k w), ODone)
  | ODone => s
  end.

Definition run {P} (step : world * P -> world * P) (sched : list ev) (s : world * P) : world * P :=
  fold_left (fun s e => match e with
                        | EStep => step s
                        | _ => (env_step e (fst s), snd s)
                        end) sched s.

(* the tie's judgement of a loaded backup: three tables seen at versions ka, kb, kl; lo transactions were
   acknowledged before the request, hi had been issued when the reply ended *)
Definition obs_ok (lo hi : N) (vs : list N) : bool :=
  match vs with
  | [] => true
  | v :: r => forallb (N.eqb v) r && (lo <=? v) && (v <=? hi)
  end.

(* ------------------------------------------------------------------ Part 2: the inter-node stream *)
(* reply = length-prefixed CommandBackupResponse (hdr bytes) followed by one gzip stream (gz bytes);
   the client has received the first `cut` bytes when the connection ends *)
Definition client_ok (hdr gz cut : N) : bool := hdr + gz <=? cut.

(* ---- the producer side: Store.Backup hands the stream to its destination in a sequence of writes — the copy
   loop's chunks, then whatever gzip.Writer.Close flushes (buffered tail, trailer).  A destination with room
   for `room` bytes accepts a write iff it fits.  The backup reports success iff every write succeeded,
   those of Close included. *)
Fixpoint write_all (writes : list N) (room : N) : bool :=
  match writes with
  | [] => true
  | n :: r => if n <=? room then write_all r (room - n) else false
  end.
Definition backup_result (copy_writes close_writes : list N) (room : N) : bool :=
  write_all (copy_writes ++ close_writes) room.
(* what the tie evaluates: the stream is `total` bytes long *)
Definition producer_ok (total room : N) : bool := total <=? room.

Inductive hstatus := H200 | H500 | HAborted.
(* handleBackup: the status can only be chosen while nothing has been written *)
Definition http_status (ok : bool) (written : N) : hstatus :=
  if ok then H200 else if written =? 0 then H500 else HAborted.

Definition hstatus_code (h : hstatus) : N := match h with H200 => 200 | H500 => 500 | HAborted => 0 end.

(* ------------------------------------------------------------------ correspondence *)
Inductive lobs :=
| OErr                                   (* the request was refused *)
| OGarbage                               (* 200 but not a loadable database *)
| OState (ka kb : option N) (kl : N) (ks : option N) (complete : bool).
    (* versions shown by table a, table z, the log, and the schema (sqlite_master name/type/sql set) *)

Inductive scn :=
| Live (lo hi : N) (o : lobs)
| Blocked (wal_empty : bool) (lo hi : N) (stalled owner_is_backup snapshot_refused : bool) (o : lobs)
    (* the consumer stalled mid-copy; meanwhile one transaction committed and a snapshot was requested *)
| Cut (total : N) (full_ok : bool) (cut : N) (cut_ok : bool) (written full_len status : N)
| DstFail (handler : bool) (total limit status delivered : N) (loads : bool).
    (* the destination writer accepts `limit` bytes, then fails; status: 200 = reported as a success (Store.Backup: nil),
       0 = response aborted, else an error *)

Record case := { c_fmt : fmt; c_vacuum : bool; c_compress : bool; c_remote : bool; c_scn : scn }.

(* which backups copy the live main file and therefore hold the snapshot gate while copying — whether or
   not there was anything in the WAL when the backup started *)
Definition holds_gate (f : fmt) (vacuum : bool) : bool :=
  match f with FBinary => negb vacuum | _ => false end.

(* Store.Snapshot -> fsmSnapshot: snapshotCAS.Begin("snapshot") fails iff the gate is held *)
Definition checkpoint_refused (w : world) : bool := gate w.

Definition hdr_len : N := 8.   (* protoBufferLengthSize + an empty CommandBackupResponse *)

Definition valid_request (c : case) : bool :=
  negb (c_vacuum c && match c_fmt c with FBinary => false | _ => true end).

Definition check_case (c : case) : bool :=
  match c_scn c with
  | Live lo hi o =>
      if valid_request c then
        match o with
        | OState (Some ka) (Some kb) kl (Some ks) true => obs_ok lo hi [ka; kb; kl; ks]
        | _ => false
        end
      else match o with OErr => true | _ => false end
  | Blocked wal_empty lo hi stalled owner_is_backup snapshot_refused o =>
      if valid_request c then
        stalled
        && Bool.eqb owner_is_backup (holds_gate (c_fmt c) (c_vacuum c))
        && Bool.eqb snapshot_refused (holds_gate (c_fmt c) (c_vacuum c))
        && match o with
           | OState (Some ka) (Some kb) kl (Some ks) true => obs_ok lo hi [ka; kb; kl; ks]
           | _ => false
           end
      else match o with OErr => true | _ => false end
  | DstFail handler total limit status delivered loads =>
      let ok := producer_ok total limit in
      valid_request c
      && (if ok then (delivered =? total) && loads else delivered <=? limit)
      && (if handler then status =? hstatus_code (http_status ok delivered)
          else status =? (if ok then 200 else 500))
  | Cut total full_ok cut cut_ok written full_len status =>
      let ok := client_ok hdr_len (total - hdr_len) cut in
      full_ok && (hdr_len <=? total)
      && Bool.eqb ok cut_ok
      && (if c_compress c then full_len =? total - hdr_len else true)
      && (if ok then written =? full_len
          else (written <=? (if c_compress c then cut - hdr_len else full_len))
               && (if cut <=? hdr_len then written =? 0 else true))
      && (status =? hstatus_code (http_status ok written))
  end.
