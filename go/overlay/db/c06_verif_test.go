package db

// C06 driver.  Schedules of {write transaction, reader start/stop on extra connections, incremental
// snapshot attempt} run on a real database in WAL mode through the real CheckpointManager.  Per event
// the driver records what SQLite and the manager did (frames appended, log restarted or not, outcome
// triple, WALReset, watch state, kept segment) for the Coq model, and checks the property directly:
// base database + kept segments, replayed by real SQLite, must be byte-identical to the live database
// file at every successful attempt, and WALReset must be reported exactly when the WAL header's salts
// differ from those seen when the watch was armed.

import (
	"bytes"
	"crypto/sha256"
	"database/sql"
	"encoding/binary"
	"encoding/json"
	"errors"
	"fmt"
	"math/rand"
	"os"
	"path/filepath"
	"strings"
	"testing"
	"time"
)

type c06Op struct {
	K  string `json:"k"` // "w" write tx, "rs" reader start, "re" reader end, "ck" snapshot attempt
	ID int    `json:"id,omitempty"`
	N  int    `json:"n,omitempty"` // "w": extra rows inserted, i.e. roughly that many more frames
}

type c06Input struct {
	Seed int64   `json:"seed"`
	Ops  []c06Op `json:"ops"`
}

// ---------------------------------------------------------------- own WAL reader

type c06Frame struct {
	Pgno, Commit uint32
	Data         []byte
}

func c06Sum(be bool, s0, s1 uint32, b []byte) (uint32, uint32) {
	for i := 0; i+8 <= len(b); i += 8 {
		var x, y uint32
		if be {
			x, y = binary.BigEndian.Uint32(b[i:]), binary.BigEndian.Uint32(b[i+4:])
		} else {
			x, y = binary.LittleEndian.Uint32(b[i:]), binary.LittleEndian.Uint32(b[i+4:])
		}
		s0 += x + s1
		s1 += y + s0
	}
	return s0, s1
}

// c06ParseWAL returns the salts, page size and the valid frames (salts and checksum chain) of a WAL image.
func c06ParseWAL(b []byte) (salt [2]uint32, ps int, frames []c06Frame, ok bool) {
	if len(b) < 32 {
		return
	}
	magic := binary.BigEndian.Uint32(b[0:])
	if magic&0xfffffffe != 0x377f0682 {
		return
	}
	be := magic&1 == 1
	ps = int(binary.BigEndian.Uint32(b[8:]))
	salt = [2]uint32{binary.BigEndian.Uint32(b[16:]), binary.BigEndian.Uint32(b[20:])}
	s0, s1 := c06Sum(be, 0, 0, b[:24])
	if s0 != binary.BigEndian.Uint32(b[24:]) || s1 != binary.BigEndian.Uint32(b[28:]) {
		return
	}
	ok = true
	for pos := 32; pos+24+ps <= len(b); pos += 24 + ps {
		h := b[pos : pos+24]
		if binary.BigEndian.Uint32(h[8:]) != salt[0] || binary.BigEndian.Uint32(h[12:]) != salt[1] {
			break
		}
		d := b[pos+24 : pos+24+ps]
		s0, s1 = c06Sum(be, s0, s1, h[:8])
		s0, s1 = c06Sum(be, s0, s1, d)
		if s0 != binary.BigEndian.Uint32(h[16:]) || s1 != binary.BigEndian.Uint32(h[20:]) {
			break
		}
		frames = append(frames, c06Frame{binary.BigEndian.Uint32(h[0:]), binary.BigEndian.Uint32(h[4:]), d})
	}
	return
}

// c06Apply lets real SQLite checkpoint a WAL image into a copy of a database image.
func c06Apply(dir string, dbImg, walImg []byte) ([]byte, error) {
	p := filepath.Join(dir, "replay.db")
	os.Remove(p)
	os.Remove(p + "-shm")
	if err := os.WriteFile(p, dbImg, 0o644); err != nil {
		return nil, err
	}
	if err := os.WriteFile(p+"-wal", walImg, 0o644); err != nil {
		return nil, err
	}
	h, err := sql.Open("sqlite3", "file:"+p)
	if err != nil {
		return nil, err
	}
	h.SetMaxOpenConns(1)
	if _, err := h.Exec("PRAGMA synchronous=OFF"); err != nil {
		h.Close()
		return nil, err
	}
	var busy, a, b int
	if err := h.QueryRow("PRAGMA wal_checkpoint(TRUNCATE)").Scan(&busy, &a, &b); err != nil {
		h.Close()
		return nil, err
	}
	if err := h.Close(); err != nil {
		return nil, err
	}
	if busy != 0 {
		return nil, fmt.Errorf("replay checkpoint busy")
	}
	return os.ReadFile(p)
}

type c06Ids struct{ m map[[32]byte]uint64 }

func (t *c06Ids) id(b []byte) uint64 {
	zero := true
	for _, x := range b {
		if x != 0 {
			zero = false
			break
		}
	}
	if zero {
		return 0
	}
	h := sha256.Sum256(b)
	if v, ok := t.m[h]; ok {
		return v
	}
	v := uint64(len(t.m) + 1)
	t.m[h] = v
	return v
}

func (t *c06Ids) pages(img []byte, ps int) string {
	var out []string
	for i := 0; i+ps <= len(img); i += ps {
		out = append(out, coqN(t.id(img[i:i+ps])))
	}
	return coqList(out)
}

func (t *c06Ids) frames(fs []c06Frame) string {
	var out []string
	for _, f := range fs {
		out = append(out, fmt.Sprintf("{| pg := %s; cm := %s; ct := %s |}", coqN(uint64(f.Pgno)), coqN(uint64(f.Commit)), coqN(t.id(f.Data))))
	}
	return coqList(out)
}

// ---------------------------------------------------------------- one schedule

type c06Reader struct {
	h  *sql.DB
	tx *sql.Tx
}

func c06Run(w *vWriter, in c06Input, dir string) {
	key := vJSON(in.Ops)
	tags := []string{fmt.Sprintf("len=%d", len(in.Ops))}
	inconcl := func(msg string) {
		w.Emit(VCase{Input: in, Key: key, Tags: tags, Inconcl: msg})
	}
	os.RemoveAll(dir)
	os.MkdirAll(dir, 0o755)
	path := filepath.Join(dir, "live.db")
	d, err := Open(path, false, true)
	if err != nil {
		inconcl("open: " + err.Error())
		return
	}
	defer d.Close()
	rng := rand.New(rand.NewSource(in.Seed))
	blob := func() []byte {
		b := make([]byte, 300+rng.Intn(2500))
		rng.Read(b)
		return b
	}
	must := func(q string, args ...any) bool {
		if _, err := d.rwDB.Exec(q, args...); err != nil {
			inconcl(q + ": " + err.Error())
			return false
		}
		return true
	}
	if !must("CREATE TABLE t (id INTEGER PRIMARY KEY, v BLOB)") || !must("CREATE TABLE u (id INTEGER PRIMARY KEY, v BLOB)") {
		return
	}
	for i := 0; i < 4+rng.Intn(6); i++ {
		if !must("INSERT INTO t(v) VALUES(?)", blob()) {
			return
		}
	}
	mgr, _ := NewCheckpointManager(d)
	const tmo = 3 * time.Millisecond
	if meta, _, err := mgr.Checkpoint(nil, time.Second); err != nil || !meta.Success() {
		inconcl(fmt.Sprintf("base checkpoint: %v", err))
		return
	}
	base, err := os.ReadFile(path)
	if err != nil {
		inconcl(err.Error())
		return
	}
	ids := &c06Ids{m: map[[32]byte]uint64{}}
	ps := 0
	readers := map[int]*c06Reader{}
	defer func() {
		for _, r := range readers {
			if r.tx != nil {
				r.tx.Rollback()
			}
			r.h.Close()
		}
	}()

	var events, seen []string
	oracle, sig := "", ""
	fail := func(s, msg string) {
		if oracle == "" {
			oracle, sig = msg, s
		}
	}
	rebuilt := base
	walState := func() (empty bool, salt [2]uint32, frames []c06Frame) {
		b, err := os.ReadFile(d.WALPath())
		if err != nil || len(b) == 0 {
			return true, salt, nil
		}
		s, p, fs, ok := c06ParseWAL(b)
		if !ok {
			fail("C06:wal-unreadable", "WAL header invalid")
			return true, salt, nil
		}
		ps = p
		return false, s, fs
	}
	var saltAtArm [2]uint32
	nAllMoved, nResetSeen, nResumed, nBusy, nTrunc := 0, 0, 0, 0, 0
	afterAllMoved := false
	longFile, longFileAppend := false, false // armed on a file longer than its live frames; a write appended since

	for i, op := range in.Ops {
		switch op.K {
		case "w":
			emptyB, saltB, framesB := walState()
			tx, err := d.rwDB.Begin()
			if err != nil {
				inconcl(err.Error())
				return
			}
			tx.Exec("INSERT INTO t(v) VALUES(?)", blob())
			for j := 0; j < op.N; j++ {
				tx.Exec("INSERT INTO t(v) VALUES(?)", blob())
			}
			switch rng.Intn(5) {
			case 0:
				for j := 0; j < 1+rng.Intn(4); j++ {
					tx.Exec("INSERT INTO u(v) VALUES(?)", blob())
				}
			case 1:
				tx.Exec(fmt.Sprintf("UPDATE t SET v=? WHERE id %% %d = 0", 2+rng.Intn(3)), blob())
			case 2:
				tx.Exec(fmt.Sprintf("DELETE FROM t WHERE id %% 3 = %d", rng.Intn(3)))
			case 3:
				tx.Exec("DELETE FROM u WHERE id % 2 = 0")
			}
			if err := tx.Commit(); err != nil {
				inconcl("commit: " + err.Error())
				return
			}
			_, saltA, framesA := walState()
			restarted := !emptyB && saltA != saltB
			newFrames := framesA
			if !emptyB && !restarted {
				if len(framesA) < len(framesB) {
					fail("C06:wal-shrank", "frames disappeared without a salt change")
				} else {
					newFrames = framesA[len(framesB):]
				}
			}
			events = append(events, "Write "+ids.frames(newFrames))
			seen = append(seen, fmt.Sprintf("{| sn_obs := OWrite %s; sn_live := None |}", coqBool(restarted)))
			if restarted {
				tags = append(tags, "log-restarted")
				longFile = false
			} else if longFile {
				longFileAppend = true
			}
		case "rs":
			if readers[op.ID] == nil {
				h, err := sql.Open("sqlite3", "file:"+path)
				if err != nil {
					inconcl(err.Error())
					return
				}
				h.SetMaxOpenConns(1)
				readers[op.ID] = &c06Reader{h: h}
			}
			r := readers[op.ID]
			if r.tx != nil {
				r.tx.Rollback()
			}
			r.tx, err = r.h.Begin()
			if err != nil {
				inconcl(err.Error())
				return
			}
			var n int
			if err := r.tx.QueryRow("SELECT count(*) FROM t").Scan(&n); err != nil {
				inconcl("reader: " + err.Error())
				return
			}
			events = append(events, fmt.Sprintf("RStart %s", coqN(uint64(op.ID))))
			seen = append(seen, "{| sn_obs := ONone; sn_live := None |}")
		case "re":
			if r := readers[op.ID]; r != nil && r.tx != nil {
				r.tx.Rollback()
				r.tx = nil
			}
			events = append(events, fmt.Sprintf("RStop %s", coqN(uint64(op.ID))))
			seen = append(seen, "{| sn_obs := ONone; sn_live := None |}")
		case "ck":
			emptyB, saltB, liveB := walState()
			fileFrames := 0
			if fi, err := os.Stat(d.WALPath()); err == nil && ps > 0 && fi.Size() > 32 {
				fileFrames = int((fi.Size() - 32) / int64(24+ps))
			}
			armedB := mgr.resetWatch.armed
			var buf bytes.Buffer
			meta, _, err := mgr.Checkpoint(&buf, tmo)
			kind, kept := "", false
			switch {
			case err == nil && meta != nil && meta.Code == 0 && buf.Len() == 0:
				kind = "NoWAL"
			case err == nil && meta != nil && meta.Code == 0:
				kind, kept = "Truncated", true
				nTrunc++
			case err == nil && meta != nil:
				kind, kept = "AllMoved", true
				nAllMoved++
			case errors.Is(err, ErrDatabaseCheckpointBusy) && meta != nil:
				kind = "Busy"
				nBusy++
			default:
				fail("C06:unexpected-error", fmt.Sprintf("step %d: Checkpoint failed with %v", i, err))
				w.Emit(VCase{Input: in, Key: key, Tags: tags, OracleFail: oracle, Sig: sig})
				return
			}
			// the store's rule: the staged segment survives iff Checkpoint returned no error
			seg, live := "None", "None"
			if kept {
				_, _, fs, ok := c06ParseWAL(buf.Bytes())
				if !ok {
					fail("C06:segment-unreadable", fmt.Sprintf("step %d: kept segment is not a WAL", i))
				}
				seg = "(Some " + ids.frames(fs) + ")"
				rb, err := c06Apply(dir, rebuilt, buf.Bytes())
				if err != nil {
					fail("C06:segment-not-replayable", fmt.Sprintf("step %d: SQLite cannot apply the segment: %v", i, err))
				} else {
					rebuilt = rb
				}
				liveImg, _ := os.ReadFile(path)
				if !bytes.Equal(liveImg, rebuilt) {
					fail("C06:rebuilt-differs-from-live:after-"+kind, fmt.Sprintf("step %d (%s): base + %d-byte segment chain differs from the live database (sizes %d/%d)", i, kind, buf.Len(), len(rebuilt), len(liveImg)))
				}
				if ps > 0 {
					live = "(Some " + ids.pages(liveImg, ps) + ")"
				}
			}
			// reset detection, from the file's salts alone
			wantReset := armedB && !emptyB && saltB != saltAtArm
			if meta.WALReset != wantReset {
				fail("C06:reset-detection-wrong", fmt.Sprintf("step %d: WALReset=%v but salts at arm %v / now %v (armed=%v)", i, meta.WALReset, saltAtArm, saltB, armedB))
			}
			if mgr.resetWatch.armed && kind == "AllMoved" {
				saltAtArm = saltB
			}
			if meta.WALReset {
				nResetSeen++
			}
			if kind != "NoWAL" && armedB && !meta.WALReset && afterAllMoved {
				nResumed++
			}
			if kind == "AllMoved" {
				afterAllMoved = true
				longFile = fileFrames > len(liveB)
				if longFile {
					tags = append(tags, "all-moved-on-file-longer-than-live-frames")
				}
			} else if kept {
				if longFileAppend {
					tags = append(tags, "success-after-append-behind-all-moved-on-long-file")
				}
				longFile, longFileAppend = false, false
			}
			events = append(events, "Ckpt")
			seen = append(seen, fmt.Sprintf("{| sn_obs := OCkpt {| o_kind := %s; o_pages := %s; o_moved := %s; o_reset := %s; o_seg := %s; o_armed := %s; o_resume := %s |}; sn_live := %s |}",
				kind, coqNat(meta.Pages), coqNat(meta.Moved), coqBool(meta.WALReset), seg,
				coqBool(mgr.resetWatch.armed), coqNat(int(mgr.resetWatch.resumeFrameIdx)), live))
		}
	}
	if ps == 0 {
		ps = 4096
	}
	if nAllMoved > 0 {
		tags = append(tags, "all-moved-not-truncated")
	}
	if nResetSeen > 0 {
		tags = append(tags, "reset-detected")
	}
	if nResumed > 0 {
		tags = append(tags, "resumed-at-nonzero-frame")
	}
	if nBusy > 0 {
		tags = append(tags, "busy-partial")
	}
	if nTrunc > 0 {
		tags = append(tags, "truncated")
	}
	c := VCase{Input: in, Key: key, Tags: tags, OracleFail: oracle, Sig: sig,
		Nontrivial: nAllMoved > 0 && (nResetSeen > 0 || nResumed > 0)}
	c.Coq = fmt.Sprintf("{| c_base := %s; c_events := %s; c_seen := %s |}", ids.pages(base, ps), coqList(events), coqList(seen))
	w.Emit(c)
}

// c06Observation reproduces the recorded liveness wart (DESIGN section 7, not a violation of C06): a
// large transaction that spills to the WAL and is rolled back leaves same-salt frames without a commit
// marker behind the committed ones; the salt-only scan then ends inside a "transaction" and every
// incremental attempt fails until the log is restarted.  Emitted as a tagged case without a model term.
func c06Observation(w *vWriter, dir string) {
	os.RemoveAll(dir)
	os.MkdirAll(dir, 0o755)
	path := filepath.Join(dir, "obs.db")
	d, err := Open(path, false, true)
	if err != nil {
		return
	}
	defer d.Close()
	rng := rand.New(rand.NewSource(42))
	blob := func() []byte {
		b := make([]byte, 3000)
		rng.Read(b)
		return b
	}
	d.rwDB.Exec("CREATE TABLE t (id INTEGER PRIMARY KEY, v BLOB)")
	mgr, _ := NewCheckpointManager(d)
	mgr.Checkpoint(nil, time.Second)
	d.rwDB.Exec("INSERT INTO t(v) VALUES(?)", blob())
	d.rwDB.Exec("PRAGMA cache_size=2")
	if tx, err := d.rwDB.Begin(); err == nil {
		for i := 0; i < 60; i++ {
			tx.Exec("INSERT INTO t(v) VALUES(?)", blob())
		}
		tx.Rollback()
	}
	d.rwDB.Exec("PRAGMA cache_size=-2000")
	d.rwDB.Exec("INSERT INTO t(v) VALUES(?)", blob())
	failed := 0
	for i := 0; i < 3; i++ {
		var buf bytes.Buffer
		if _, _, err := mgr.Checkpoint(&buf, 3*time.Millisecond); err != nil && strings.Contains(err.Error(), "open transaction at end of WAL file") {
			failed++
		}
		d.rwDB.Exec("INSERT INTO t(v) VALUES(?)", blob())
	}
	tag := "observation:spilled-rollback-blocks-incremental-attempts"
	if failed == 0 {
		tag = "observation:spilled-rollback-did-not-block"
	}
	w.Emit(VCase{Input: map[string]any{"observation": "spill-rollback", "attempts_failed_with_open_transaction": failed}, Key: "observation", Tags: []string{tag}})
}

// ---------------------------------------------------------------- schedules

// c06Episode builds a steering sequence.  It starts like "a reader takes a read mark at the end of a
// log with unmoved frames; the attempt moves everything but cannot truncate" and then plays 1-4 further
// rounds, each ending in another attempt, chosen among:
//   - the reader leaves, a (usually much shorter) write restarts the log in place - the file keeps its
//     old length - a new reader parks at the end of the short log, attempt: reset detected and again
//     all-moved-not-truncated, on a file that is longer than its live frames;
//   - the writer appends behind the parked reader's mark, attempt: busy (partial move);
//   - the writer appends, a second reader parks at the new end, the first leaves, attempt: all moved
//     again, resume index further on;
//
// with appends in between while readers stay parked, and finally every reader leaves and an attempt
// truncates.  Log lengths vary from a couple of frames to dozens.
func c06Episode(rng *rand.Rand) []c06Op {
	var t []c06Op
	size := func(big bool) int {
		if big {
			return 8 + rng.Intn(25)
		}
		if rng.Intn(4) == 0 {
			return 1 + rng.Intn(4)
		}
		return 0
	}
	if rng.Intn(10) < 7 {
		// meet a quiet log
		for id := 1; id <= 5; id++ {
			t = append(t, c06Op{K: "re", ID: id})
		}
		t = append(t, c06Op{K: "ck"})
	}
	long := rng.Intn(3) != 0 // first generation long, so that later ones are shorter than the file
	for i := 0; i < 1+rng.Intn(3); i++ {
		t = append(t, c06Op{K: "w", N: size(long)})
	}
	cur, other := 4, 5
	t = append(t, c06Op{K: "rs", ID: cur}, c06Op{K: "ck"})
	for r := 0; r < 1+rng.Intn(4); r++ {
		switch rng.Intn(5) {
		case 0, 1: // restart in place, park again, attempt
			t = append(t, c06Op{K: "re", ID: cur}, c06Op{K: "w", N: size(!long && rng.Intn(3) == 0)})
			if rng.Intn(4) == 0 {
				t = append(t, c06Op{K: "w", N: size(false)}) // this one appends to the restarted log
			}
			cur, other = other, cur
			t = append(t, c06Op{K: "rs", ID: cur}, c06Op{K: "ck"})
		case 2: // append behind the mark, attempt (busy)
			t = append(t, c06Op{K: "w", N: size(false)}, c06Op{K: "ck"})
		default: // append, re-park at the new end, attempt
			t = append(t, c06Op{K: "w", N: size(rng.Intn(4) == 0)}, c06Op{K: "rs", ID: other}, c06Op{K: "re", ID: cur}, c06Op{K: "ck"})
			cur, other = other, cur
		}
		if rng.Intn(10) < 6 {
			t = append(t, c06Op{K: "w", N: size(false)}) // append while the reader stays parked
		}
	}
	t = append(t, c06Op{K: "re", ID: cur}, c06Op{K: "re", ID: other}, c06Op{K: "ck"})
	if rng.Intn(2) == 0 {
		t = append(t, c06Op{K: "w", N: size(false)}, c06Op{K: "ck"})
	}
	return t
}

func c06Gen(rng *rand.Rand) []c06Op {
	n := 5 + rng.Intn(10)
	active := map[int]bool{}
	var ops []c06Op
	rnd := func() c06Op {
		switch r := rng.Intn(100); {
		case r < 35:
			if rng.Intn(5) == 0 {
				return c06Op{K: "w", N: 1 + rng.Intn(12)}
			}
			return c06Op{K: "w"}
		case r < 50:
			id := 1 + rng.Intn(3)
			active[id] = true
			return c06Op{K: "rs", ID: id}
		case r < 65:
			for id := range active {
				delete(active, id)
				return c06Op{K: "re", ID: id}
			}
			return c06Op{K: "w"}
		default:
			return c06Op{K: "ck"}
		}
	}
	for len(ops) < n {
		ops = append(ops, rnd())
	}
	// steer (see c06Episode)
	if rng.Intn(10) < 8 {
		t := c06Episode(rng)
		pos := rng.Intn(len(ops) + 1)
		ops = append(ops[:pos], append(t, ops[pos:]...)...)
	}
	return ops
}

func TestVerif_C06(t *testing.T) {
	w := vOpen()
	defer w.Close()
	dir := filepath.Join(t.TempDir(), "c06")
	if raw := vReplayInput(); raw != nil {
		var in c06Input
		if err := json.Unmarshal(raw, &in); err != nil {
			t.Fatal(err)
		}
		if len(in.Ops) == 0 {
			c06Observation(w, dir)
			return
		}
		c06Run(w, in, dir)
		return
	}
	rng := vRand()
	c06Observation(w, dir)
	// hand-picked schedules first
	corpus := []string{
		"w ck",
		"w rs1 ck re1 w ck",
		"w rs1 ck w ck re1 ck",
		"rs1 w ck re1 ck",
		"w rs1 w ck re1 ck w ck",
		"w rs1 ck re1 ck w ck",
		"ck w w ck ck",
		"w rs1 ck re1 rs2 w ck re2 w ck",
		// long log, all moved but not truncated; restarted in place by a short write; second
		// all-moved-not-truncated on the short log (file longer than its live frames); append; success
		"W rs1 ck re1 w rs2 ck w re2 ck",
		"W W rs1 ck re1 w rs2 ck w rs1 re2 ck w re1 ck",
		"W rs1 ck re1 w w rs2 ck re2 w rs1 ck w w re1 ck",
	}
	for i, s := range corpus {
		var ops []c06Op
		for _, f := range strings.Fields(s) {
			switch {
			case f == "w" || f == "ck":
				ops = append(ops, c06Op{K: f})
			case f == "W":
				ops = append(ops, c06Op{K: "w", N: 20})
			default:
				ops = append(ops, c06Op{K: f[:2], ID: int(f[2] - '0')})
			}
		}
		c06Run(w, c06Input{Seed: vSeed()*7919 + int64(i), Ops: ops}, dir)
	}
	n := vN(120, 2500)
	for i := 0; i < n; i++ {
		c06Run(w, c06Input{Seed: vSeed()*1000003 + int64(i), Ops: c06Gen(rng)}, dir)
	}
}
