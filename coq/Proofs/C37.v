(* C37 — specification (from the property text) and proofs about Model.C37. *)
From Coq Require Import List NArith Bool Lia.
From RQ Require Import Model.C37.
Import ListNotations.
Open Scope N_scope.

(* ---- vocabulary of the property text ---- *)

(* indexes grow: every change gets an index above all earlier ones (and above lo) *)
Fixpoint incr (lo : N) (l : list N) : Prop :=
  match l with [] => True | x :: r => lo < x /\ incr x r end.

(* an event is well-formed in a world when the indexes it commits are above everything committed *)
Definition wf_ev (w : world) (ev : event) : Prop :=
  match ev with
  | EvWrite i => last_index (w_db w) < i
  | EvRound e => incr (last_index (w_db w)) (e_mid e)
  | EvSilent => True
  end.

Fixpoint wf_evs (w : world) (evs : list event) : Prop :=
  match evs with [] => True | ev :: r => wf_ev w ev /\ wf_evs (step w ev) r end.

(* an object contains every change of db up to index L *)
Definition reflects (data : content) (db : list N) (L : N) : Prop :=
  forall c, In c db -> c <= L -> In c data.

(* the database has changed since the last successful automatic upload *)
Definition changed (w : world) : Prop := w_last w < last_index (w_db w).

(* the first-round shortcut applies: nothing uploaded yet by this uploader, the storage can be
   asked, and it already holds an object labelled with the current index *)
Definition already_there (w : world) (e : env) : Prop :=
  w_last w = 0 /\ e_id_err e = false /\ w_rid w = Some (last_index (w_db w)).

(* Provide's retry loop runs out of attempts: the first `fuel` attempts all fail *)
Definition attempt_ok (a : attempt) : bool := match a with AOk | ABenign => true | AGate | AFail => false end.
Fixpoint gives_up (fuel : nat) (atts : list attempt) : bool :=
  match fuel with
  | O => true
  | S f => match atts with [] => false | a :: r => if attempt_ok a then false else gives_up f r end
  end.

(* the provider answers: LastIndex works, Provide is not failing outright and one of its (at
   most 11) attempts goes through - gate conflicts and write errors before that are allowed *)
Definition provider_ok (e : env) : Prop :=
  e_li_err e = false /\ e_prov_err e = false /\ gives_up 11 (e_attempts e) = false.

(* ---- lists ---- *)

Lemma last_cons_d (x : N) l d : last (x :: l) d = last l x.
Proof.
  revert x d. induction l as [|y l IH]; intros x d; [reflexivity|].
  change (last (x :: y :: l) d) with (last (y :: l) d). rewrite (IH y d), (IH y x). reflexivity.
Qed.

Lemma last_app_d (a b : list N) : forall d, last (a ++ b) d = last b (last a d).
Proof.
  induction a as [|x a IH]; intros d; [reflexivity|].
  change ((x :: a) ++ b) with (x :: a ++ b). rewrite !last_cons_d. apply IH.
Qed.

Lemma incr_last l : forall lo, incr lo l -> lo <= last l lo.
Proof.
  induction l as [|x l IH]; intros lo H; cbn [incr] in H; [cbn; lia|].
  destruct H as (H1 & H2). rewrite last_cons_d. specialize (IH x H2). lia.
Qed.

Lemma incr_in l : forall lo c, incr lo l -> In c l -> lo < c <= last l lo.
Proof.
  induction l as [|x l IH]; intros lo c H Hin; [destruct Hin|].
  cbn [incr] in H. destruct H as (H1 & H2). rewrite last_cons_d.
  destruct Hin as [->|Hin].
  - pose proof (incr_last l c H2). lia.
  - specialize (IH x c H2 Hin). lia.
Qed.

Lemma incr_app a : forall lo b, incr lo (a ++ b) <-> incr lo a /\ incr (last a lo) b.
Proof.
  induction a as [|x a IH]; intros lo b.
  - cbn. tauto.
  - cbn [app incr]. rewrite last_cons_d. rewrite IH. tauto.
Qed.

Lemma last_index_app db m : last_index (db ++ m) = last m (last_index db).
Proof. unfold last_index. apply last_app_d. Qed.

Lemma last_index_grows db m : incr (last_index db) m -> last_index db <= last_index (db ++ m).
Proof. intros H. rewrite last_index_app. apply incr_last. exact H. Qed.

Lemma in_db_le db c : incr 0 db -> In c db -> c <= last_index db.
Proof. intros H Hin. destruct (incr_in db 0 c H Hin). exact H1. Qed.

(* ---- Provide ---- *)

Lemma provide_spec fuel db : forall atts n,
  fst (provide fuel db atts n) = if gives_up fuel atts then None else Some db.
Proof.
  induction fuel as [|f IH]; intros atts n; [reflexivity|].
  destruct atts as [|a r]; [reflexivity|].
  cbn [provide gives_up]. destruct a; cbn [backup_copy attempt_ok fst]; try reflexivity; apply IH.
Qed.

Lemma provided_some db e d : provided db e = Some d -> d = db.
Proof.
  unfold provided. destruct (e_prov_err e); [discriminate|].
  rewrite provide_spec. destruct (gives_up 11 (e_attempts e)); [discriminate|]. intros H; inversion H; reflexivity.
Qed.

Lemma provided_ok db e : provider_ok e -> provided db e = Some db.
Proof.
  intros (_ & Hpr & Hgu). unfold provided. rewrite Hpr, provide_spec, Hgu. reflexivity.
Qed.

(* a gate conflict never yields data: the attempt fails, whatever the database *)
Lemma gate_conflict_copies_nothing db : backup_copy db AGate = None.
Proof. reflexivity. Qed.

(* attempts: k failing attempts (k <= 10) followed by a good one make k+1 attempts *)
Lemma provide_attempts db : forall k fuel n, (k < fuel)%nat ->
  provide fuel db (repeat AGate k) n = (Some db, n + N.of_nat k + 1).
Proof.
  induction k as [|k IH]; intros fuel n Hk.
  - destruct fuel; [lia|]. cbn. f_equal. lia.
  - destruct fuel; [lia|]. cbn [repeat provide backup_copy]. rewrite IH by lia. f_equal. lia.
Qed.

Lemma provide_retries_past_gate db k :
  backup_copy db AGate = None /\
  ((k < 11)%nat -> provide 11 db (repeat AGate k) 0 = (Some db, 0 + N.of_nat k + 1)).
Proof. split; [reflexivity|apply provide_attempts]. Qed.

(* ---- one round ---- *)

Ltac brk :=
  repeat match goal with
         | |- context [match provided ?a ?b with _ => _ end] => destruct (provided a b) eqn:?
         | |- context [if ?b then _ else _] => destruct b eqn:?
         end.

Lemma uploads_when_changed w e :
  provider_ok e -> changed w -> ~ already_there w e ->
  let li := last_index (w_db w) in
  let w' := fst (fst (round w e)) in
  exists data,
    In (CUpload li data) (snd (round w e)) /\
    (snd (fst (round w e)) = OUploaded li data \/ (e_up_fail e = true /\ snd (fst (round w e)) = OUploadFailed li data)) /\
    w_db w' = w_db w ++ e_mid e /\
    (forall c, In c (w_db w') -> In c data) /\
    (e_up_fail e = false -> w_last w' = li /\ w_rid w' = Some li /\ w_rdata w' = data).
Proof.
  intros Hok Hch Hna. pose proof (fun db => provided_ok db e Hok) as HP. destruct Hok as (Hli & Hpr & Hgu).
  unfold changed in Hch. cbv zeta.
  exists (w_db w ++ e_mid e).
  unfold round. rewrite Hli, HP.
  destruct (last_index (w_db w) <=? w_last w) eqn:Hle; [apply N.leb_le in Hle; lia|].
  cbn [set_db w_db w_last w_rid].
  destruct ((w_last w =? 0) && negb (e_id_err e) && opt_N_eqb (w_rid w) (last_index (w_db w))) eqn:Hid.
  - exfalso. apply Hna. apply andb_true_iff in Hid as (Hid & H3). apply andb_true_iff in Hid as (H1 & H2).
    unfold already_there. apply N.eqb_eq in H1. apply negb_true_iff in H2.
    unfold opt_N_eqb in H3. destruct (w_rid w) as [x|]; [|discriminate]. apply N.eqb_eq in H3. subst. auto.
  - destruct (e_up_fail e) eqn:Hup; cbn [fst snd w_db w_last w_rid w_rdata].
    + repeat split; auto; try discriminate.
      rewrite !in_app_iff. right. right. left. reflexivity.
    + repeat split; auto.
      rewrite !in_app_iff. right. right. left. reflexivity.
Qed.

(* the content reflects every change up to the label, even with writes racing the round *)
Lemma upload_reflects_label w e :
  provider_ok e -> changed w -> ~ already_there w e ->
  forall li data, In (CUpload li data) (snd (round w e)) ->
    li = last_index (w_db w) /\ reflects data (w_db (fst (fst (round w e)))) li.
Proof.
  intros Hok Hch Hna li data. pose proof (fun db => provided_ok db e Hok) as HP. destruct Hok as (Hli & Hpr & Hgu).
  unfold changed in Hch.
  unfold round. rewrite Hli, HP.
  destruct (last_index (w_db w) <=? w_last w) eqn:Hle; [apply N.leb_le in Hle; lia|].
  cbn [set_db w_db w_last w_rid].
  destruct ((w_last w =? 0) && negb (e_id_err e) && opt_N_eqb (w_rid w) (last_index (w_db w))) eqn:Hid.
  - cbn. intros [H|[H|[H|[]]]]; discriminate.
  - assert (G : forall cs, In (CUpload li data) ([CLast; CProvide] ++ (if w_last w =? 0 then [CCurID] else []) ++ [cs]) -> cs = CUpload li data).
    { intros cs. rewrite !in_app_iff. intros [[H|[H|[]]]|[H|[H|[]]]]; try discriminate; auto.
      destruct (w_last w =? 0); [destruct H as [H|[]]; discriminate|destruct H]. }
    destruct (e_up_fail e); cbn [fst snd w_db]; intros H; apply G in H; inversion H; subst;
      (split; [reflexivity|]); intros c Hc _; exact Hc.
Qed.

Lemma skips_when_unchanged w e :
  e_li_err e = false -> ~ changed w -> round w e = (w, OSkipped, [CLast]).
Proof.
  intros Hli Hch. unfold changed in Hch. unfold round. rewrite Hli.
  destruct (last_index (w_db w) <=? w_last w) eqn:Hle; [reflexivity|apply N.leb_gt in Hle; lia].
Qed.

Lemma no_upload_when_unchanged w e li data : ~ changed w -> ~ In (CUpload li data) (snd (round w e)).
Proof.
  intros Hch. unfold changed in Hch. unfold round.
  destruct (e_li_err e); [cbn; intros [H|[]]; discriminate|].
  destruct (last_index (w_db w) <=? w_last w) eqn:Hle; [cbn; intros [H|[]]; discriminate|apply N.leb_gt in Hle; lia].
Qed.

Lemma failure_not_recorded w e :
  is_error (snd (fst (round w e))) = true ->
  let w' := fst (fst (round w e)) in
  w_last w' = w_last w /\ w_rid w' = w_rid w /\ w_rdata w' = w_rdata w.
Proof.
  unfold round. brk; cbn; auto; discriminate.
Qed.

Lemma failed_upload_retried w e e2 li data :
  incr 0 (w_db w) -> wf_ev w (EvRound e) ->
  snd (fst (round w e)) = OUploadFailed li data ->
  provider_ok e2 -> e_up_fail e2 = false ->
  let w' := fst (fst (round w e)) in
  let li2 := last_index (w_db w') in
  li <= li2 /\
  (snd (fst (round w' e2)) = OUploaded li2 (w_db w' ++ e_mid e2) \/
   (snd (fst (round w' e2)) = OSkippedID /\ w_rid w' = Some li2)).
Proof.
  intros Hs Hw Ho Hok2 Hup2. pose proof (fun db => provided_ok db e2 Hok2) as HP2. destruct Hok2 as (Hli2 & Hpr2 & Hgu2).
  cbn [wf_ev] in Hw. cbv zeta.
  assert (Hw' : fst (fst (round w e)) = set_db w (w_db w ++ e_mid e) /\ li = last_index (w_db w) /\ w_last w < li).
  { revert Ho. unfold round. brk; cbn [fst snd]; try discriminate; intros H; inversion H; subst;
      repeat split; apply N.leb_gt; assumption. }
  destruct Hw' as (-> & -> & Hlt).
  cbn [set_db w_db].
  pose proof (last_index_grows _ _ Hw) as Hg. split; [exact Hg|].
  unfold round. rewrite Hli2, HP2, Hup2. cbn [set_db w_db w_last w_rid w_rdata].
  destruct (last_index (w_db w ++ e_mid e) <=? w_last w) eqn:Hle; [apply N.leb_le in Hle; lia|].
  destruct ((w_last w =? 0) && negb (e_id_err e2) && opt_N_eqb (w_rid w) (last_index (w_db w ++ e_mid e))) eqn:Hid.
  - right. split; [reflexivity|]. apply andb_true_iff in Hid as (_ & H3).
    unfold opt_N_eqb in H3. destruct (w_rid w); [|discriminate]. apply N.eqb_eq in H3. subst. reflexivity.
  - left. reflexivity.
Qed.

Lemma first_round_id_check w e :
  provider_ok e -> changed w ->
  (snd (fst (round w e)) = OSkippedID <-> already_there w e) /\
  (w_last w <> 0 -> ~ In CCurID (snd (round w e))).
Proof.
  intros Hok Hch. pose proof (fun db => provided_ok db e Hok) as HP. destruct Hok as (Hli & Hpr & Hgu).
  unfold changed in Hch. unfold round, already_there. rewrite Hli, HP.
  destruct (last_index (w_db w) <=? w_last w) eqn:Hle; [apply N.leb_le in Hle; lia|].
  cbn [set_db w_db w_last w_rid].
  destruct (w_last w =? 0) eqn:H0; cbn [andb].
  - apply N.eqb_eq in H0. split; [|intros; contradiction].
    destruct (e_id_err e); cbn [negb andb].
    + destruct (e_up_fail e); cbn; split; try discriminate; intros (_ & H & _); discriminate.
    + unfold opt_N_eqb. destruct (w_rid w) as [x|].
      * destruct (x =? last_index (w_db w)) eqn:E.
        -- apply N.eqb_eq in E. subst. cbn. split; auto.
        -- apply N.eqb_neq in E. destruct (e_up_fail e); cbn; split; try discriminate;
             intros (_ & _ & H); inversion H; contradiction.
      * destruct (e_up_fail e); cbn; split; try discriminate; intros (_ & _ & H); discriminate.
  - apply N.eqb_neq in H0. split.
    + destruct (e_up_fail e); cbn; split; try discriminate; intros (H & _); contradiction.
    + intros _. destruct (e_up_fail e); cbn; intros [H|[H|[H|[]]]]; discriminate.
Qed.

(* ---- histories ---- *)

(* what holds after every history that starts with a fresh uploader *)
Definition inv (rid0 : option N) (rdata0 : content) (w : world) : Prop :=
  incr 0 (w_db w) /\
  w_last w <= last_index (w_db w) /\
  (0 < w_last w -> w_rid w = Some (w_last w) /\ reflects (w_rdata w) (w_db w) (w_last w)) /\
  (w_last w = 0 -> w_rid w = rid0 /\ w_rdata w = rdata0).

Lemma round_cases w e :
  let '(w', o, cs) := round w e in
  (w' = w /\ (o = OErrIndex \/ (o = OSkipped /\ last_index (w_db w) <= w_last w))) \/
  (changed w /\ w' = set_db w (w_db w ++ e_mid e) /\ (o = OErrProvide \/ (o = OSkippedID /\ already_there w e) \/ exists d, o = OUploadFailed (last_index (w_db w)) d)) \/
  (changed w /\ o = OUploaded (last_index (w_db w)) (w_db w ++ e_mid e) /\
   w' = {| w_last := last_index (w_db w); w_db := w_db w ++ e_mid e; w_rid := Some (last_index (w_db w)); w_rdata := w_db w ++ e_mid e;
           w_silent := w_silent w; w_rsilent := w_silent w |}).
Proof.
  unfold round, changed.
  destruct (e_li_err e); [left; auto|].
  destruct (last_index (w_db w) <=? w_last w) eqn:Hle; [apply N.leb_le in Hle; left; auto|]. apply N.leb_gt in Hle.
  cbn [set_db w_db w_last w_rid].
  destruct (provided (w_db w ++ e_mid e) e) as [data|] eqn:HP; [|right; left; auto].
  apply provided_some in HP. subst data.
  destruct ((w_last w =? 0) && negb (e_id_err e) && opt_N_eqb (w_rid w) (last_index (w_db w))) eqn:Hid.
  - right; left. repeat split; auto. right. left. split; [reflexivity|].
    apply andb_true_iff in Hid as (Hid & H3). apply andb_true_iff in Hid as (H1 & H2).
    unfold already_there. apply N.eqb_eq in H1. apply negb_true_iff in H2.
    unfold opt_N_eqb in H3. destruct (w_rid w) as [x|]; [|discriminate]. apply N.eqb_eq in H3. subst. auto.
  - destruct (e_up_fail e).
    + right; left. repeat split; auto. right. right. eexists; reflexivity.
    + right; right. auto.
Qed.

Lemma reflects_db_app (data db m : list N) L :
  incr 0 db -> incr (last_index db) m -> L <= last_index db -> reflects data db L -> reflects data (db ++ m) L.
Proof.
  intros Hs Hm HL Hr c Hc Hle. apply in_app_iff in Hc as [Hc|Hc]; [auto|].
  destruct (incr_in m _ c Hm Hc). lia.
Qed.

Lemma inv_grow rid0 rdata0 w m :
  inv rid0 rdata0 w -> incr (last_index (w_db w)) m -> inv rid0 rdata0 (set_db w (w_db w ++ m)).
Proof.
  intros (Hs & Hle & Ha & Hb) Hm. unfold inv. cbn [set_db w_db w_last w_rid w_rdata].
  pose proof (last_index_grows _ _ Hm) as Hg.
  split; [apply incr_app; split; [exact Hs|exact Hm]|].
  split; [lia|].
  split.
  - intros Hp. destruct (Ha Hp) as (Hr1 & Hr2). split; [exact Hr1|].
    apply reflects_db_app; auto.
  - exact Hb.
Qed.

Lemma inv_step rid0 rdata0 w ev : inv rid0 rdata0 w -> wf_ev w ev -> inv rid0 rdata0 (step w ev).
Proof.
  intros Hi Hw. destruct ev as [i|e|]; cbn [step wf_ev] in *.
  3: { destruct Hi as (Hs & Hle & Ha & Hb). unfold inv. cbn [w_db w_last w_rid w_rdata]. auto. }
  - apply inv_grow; [exact Hi|]. cbn. auto.
  - pose proof (round_cases w e) as H. destruct (round w e) as [[w' o] cs]. cbn [fst].
    destruct H as [(-> & _)|[(Hch & -> & _)|(Hch & _ & ->)]].
    + exact Hi.
    + apply inv_grow; assumption.
    + destruct Hi as (Hs & Hle & Ha & Hb). unfold inv. cbn [w_db w_last w_rid w_rdata].
      pose proof (last_index_grows _ _ Hw) as Hg. unfold changed in Hch.
      split; [apply incr_app; split; assumption|].
      split; [assumption|].
      split.
      * intros _. split; [reflexivity|]. intros c Hc _. exact Hc.
      * intros Hz. lia.
Qed.

Lemma inv_run rid0 rdata0 evs : forall w, inv rid0 rdata0 w -> wf_evs w evs -> inv rid0 rdata0 (run w evs).
Proof.
  induction evs as [|ev evs IH]; intros w Hi Hw; [exact Hi|].
  cbn [wf_evs] in Hw. destruct Hw as (H1 & H2). cbn [run fold_left]. apply IH; [apply inv_step; assumption|exact H2].
Qed.

(* a fresh uploader next to a database and a storage in any state *)
Definition fresh (db0 : list N) (rid0 : option N) (rdata0 : content) : world :=
  {| w_last := 0; w_db := db0; w_rid := rid0; w_rdata := rdata0; w_silent := 0; w_rsilent := 0 |}.

Lemma inv_fresh db0 rid0 rdata0 : incr 0 db0 -> inv rid0 rdata0 (fresh db0 rid0 rdata0).
Proof.
  intros H. unfold inv, fresh; cbn [w_last w_db w_rid w_rdata].
  split; [exact H|]. split; [lia|]. split; [intros Hp; lia|auto].
Qed.

(* the round completed without error: it uploaded, or found nothing to do *)
Definition succeeded (o : outcome) : Prop :=
  match o with OUploaded _ _ | OSkipped | OSkippedID => True | _ => False end.

(* Whatever object the storage held before this uploader started is labelled honestly with
   respect to this database's history: if its id is the index L, it contains every change up
   to L.  (Needed only for the first-round shortcut; the uploader cannot check it.) *)
Definition honest (rid0 : option N) (rdata0 : content) (db : list N) : Prop :=
  forall L, rid0 = Some L -> reflects rdata0 db L.

Theorem history_newest_object_reflects_all db0 rid0 rdata0 evs e :
  incr 0 db0 ->
  let w := run (fresh db0 rid0 rdata0) evs in
  wf_evs (fresh db0 rid0 rdata0) evs -> wf_ev w (EvRound e) ->
  succeeded (snd (fst (round w e))) ->
  let w' := fst (fst (round w e)) in
  honest rid0 rdata0 (w_db w') ->
  (* the stored object reflects every change up to the index read by this round ... *)
  reflects (w_rdata w') (w_db w') (last_index (w_db w)) /\
  (* ... which, with no write racing the round, is every committed change *)
  (e_mid e = [] -> forall c, In c (w_db w') -> In c (w_rdata w')) /\
  (w_db w' <> [] -> last_index (w_db w) <= w_last w' \/ w_rid w' = Some (last_index (w_db w))).
Proof.
  intros Hs0. cbv zeta. intros Hwf Hwe Hsucc Hhon.
  pose proof (inv_run rid0 rdata0 evs _ (inv_fresh db0 rid0 rdata0 Hs0) Hwf) as Hi.
  set (w := run (fresh db0 rid0 rdata0) evs) in *.
  pose proof (round_cases w e) as H. destruct (round w e) as [[w' o] cs]. cbn [fst snd] in *.
  destruct Hi as (Hs & Hle & Ha & Hb).
  assert (Main : reflects (w_rdata w') (w_db w') (last_index (w_db w)) /\
                 (w_db w' <> [] -> last_index (w_db w) <= w_last w' \/ w_rid w' = Some (last_index (w_db w)))).
  { destruct H as [(-> & [->|(-> & Hun)])|[(Hch & -> & [->|[(-> & Hat)|(d & ->)]])|(Hch & -> & ->)]]; cbn in Hsucc; try contradiction.
    - (* skipped: unchanged *)
      split; [|intros _; left; exact Hun].
      intros c Hc _. destruct (incr_in _ _ _ Hs Hc) as (Hc1 & Hc2). fold (last_index (w_db w)) in Hc2.
      assert (Hp : 0 < w_last w) by lia. destruct (Ha Hp) as (Hr1 & Hr2).
      apply Hr2; [exact Hc|lia].
    - (* skipped: the storage already holds the object with this id *)
      destruct Hat as (H0 & _ & Hid). destruct (Hb H0) as (Hr1 & Hr2).
      cbn [set_db w_db w_rdata w_rid w_last] in *. split.
      + rewrite Hr2. apply Hhon. congruence.
      + intros _. right. exact Hid.
    - (* uploaded *)
      cbn [w_db w_rdata w_last w_rid]. split.
      + intros c Hc _. exact Hc.
      + intros _. left. lia. }
  destruct Main as (M1 & M2). split; [exact M1|]. split; [|exact M2].
  intros Hmid c Hc. apply M1; [exact Hc|].
  assert (Hdb : w_db w' = w_db w).
  { destruct H as [(-> & _)|[(_ & -> & _)|(_ & _ & ->)]]; cbn [set_db w_db]; rewrite ?Hmid, ?app_nil_r; reflexivity. }
  rewrite Hdb in Hc. apply in_db_le; assumption.
Qed.

(* ---- the full property does not hold: a change that does not move the applied index ---- *)

(* the stored object is behind the database: it lacks an indexed change or an unindexed one *)
Definition behind (w : world) : Prop :=
  (exists c, In c (w_db w) /\ ~ In c (w_rdata w)) \/ w_rsilent w <> w_silent w.

Definition clean0 := {| e_li_err := false; e_mid := []; e_prov_err := false; e_attempts := []; e_id_err := false; e_up_fail := false |}.

(* write, successful upload, a change that fsmApply does not count, then any number of clean
   rounds: each of them skips, and the stored object stays behind the database *)
Theorem unindexed_change_refuted :
  exists evs, wf_evs (fresh [] None []) evs /\
    let w := run (fresh [] None []) evs in
    forall n, let w' := run w (repeat (EvRound clean0) n) in
      behind w' /\ snd (fst (round w' clean0)) = OSkipped.
Proof.
  exists [EvWrite 2; EvRound clean0; EvSilent]. split; [cbn; repeat split; lia|].
  cbv zeta. intros n.
  assert (E : run (run (fresh [] None []) [EvWrite 2; EvRound clean0; EvSilent]) (repeat (EvRound clean0) n)
              = run (fresh [] None []) [EvWrite 2; EvRound clean0; EvSilent]).
  { induction n as [|n IH]; [reflexivity|]. cbn [repeat run fold_left] in *. exact IH. }
  rewrite E. split; [right; vm_compute; discriminate|reflexivity].
Qed.

(* ---- concrete instances ---- *)

Definition clean := {| e_li_err := false; e_mid := []; e_prov_err := false; e_attempts := []; e_id_err := false; e_up_fail := false |}.
Definition racing := {| e_li_err := false; e_mid := [9; 11]; e_prov_err := false; e_attempts := []; e_id_err := false; e_up_fail := false |}.
Definition failing := {| e_li_err := false; e_mid := []; e_prov_err := false; e_attempts := []; e_id_err := true; e_up_fail := true |}.

Example ex_round_racing :
  round (fresh [3; 5] (Some 3) [3]) racing
  = ({| w_last := 5; w_db := [3; 5; 9; 11]; w_rid := Some 5; w_rdata := [3; 5; 9; 11]; w_silent := 0; w_rsilent := 0 |},
     OUploaded 5 [3; 5; 9; 11], [CLast; CProvide; CCurID; CUpload 5 [3; 5; 9; 11]]).
Proof. vm_compute. reflexivity. Qed.

Example ex_skip_id : snd (fst (round (fresh [3; 5] (Some 5) [3; 5]) clean)) = OSkippedID.
Proof. vm_compute. reflexivity. Qed.

Example ex_history :
  let w := run (fresh [] None []) [EvWrite 2; EvRound failing; EvWrite 4; EvRound racing; EvRound clean; EvWrite 12] in
  w_last w = 11 /\ w_db w = [2; 4; 9; 11; 12] /\ w_rid w = Some 11 /\ w_rdata w = [2; 4; 9; 11] /\
  snd (fst (round w clean)) = OUploaded 12 [2; 4; 9; 11; 12].
Proof. vm_compute. repeat split; reflexivity. Qed.
