(* C09 — property theorems only (model of the code WITH fix C09-full-needed-recheck). *)
From Coq Require Import List NArith.
From RQ Require Import Model.C09 Proofs.C09.
Import ListNotations.
Open Scope N_scope.

(* after any history (creates, payloads, closes cut at any step with or without a restart, cancels,
   set-full-needed, reaps, reopens) the store lists exactly the complete directories, sorted *)
Theorem C09_only_complete_listed : forall ops, exists l, sorted_catalog (run empty_store ops) l.
Proof. exact catalog_well_formed. Qed.
Print Assumptions C09_only_complete_listed.

(* refinement to the sorted-list view: one operation leaves the catalog alone, inserts one complete
   snapshot (a close), or replaces it by one consolidated full snapshot (a reap) *)
Theorem C09_catalog_refines_sorted_list : forall s o, inv s ->
  let s' := fst (step s o) in
  snaps s' = snaps s \/
  (exists i m d, o = OClose i m /\ snaps s' = d :: snaps s /\ complete d /\
                 sorted_of (snaps s') = insert d (sorted_of (snaps s))) \/
  (o = OReap /\ exists c, snaps s' = [c] /\ complete c /\ is_full c = true).
Proof. exact catalog_changes. Qed.
Print Assumptions C09_catalog_refines_sorted_list.

Theorem C09_chain_shape : forall ops, all_ok empty_store ops ->
  let s := run empty_store ops in
  exists l, scan s = Some l /\ chain_ok l /\ forall d, In d l -> resolve s (d_seq d) <> None.
Proof. exact chain_shape. Qed.
Print Assumptions C09_chain_shape.

Theorem C09_inc_never_accepted_while_full_needed : forall s i m k n,
  find_sink s i = Some k -> k_hdr k = HInc n ->
  (snaps (fst (step s (OClose i m))) <> snaps s \/ snd (step s (OClose i m)) = RInstalledInc) ->
  due_full s = false /\ flag s = false.
Proof. exact inc_never_accepted_while_full_needed. Qed.
Print Assumptions C09_inc_never_accepted_while_full_needed.

Theorem C09_flag_cleared_only_by_install : forall s o, inv s ->
  flag s = true -> flag (fst (step s o)) = false ->
  exists i m k n, o = OClose i m /\ find_sink s i = Some k /\ k_hdr k = HFullOK n /\
                  snd (step s o) = RInstalledFull /\
                  exists d, snaps (fst (step s o)) = d :: snaps s /\ is_full d = d_db (k_dir k).
Proof. exact flag_cleared_only_by_install. Qed.
Print Assumptions C09_flag_cleared_only_by_install.

Theorem C09_invariant_reachable : forall ops, inv (run empty_store ops).
Proof. exact inv_reachable. Qed.
Print Assumptions C09_invariant_reachable.

(* Second tie (DESIGN 3.5, docs/gotrans.md): Snapshot.Less, SnapshotSet.NewestFull and SnapshotSet.PartitionAtFull as
   translated from snapshot/snapshot.go on this run are the hand model's dlt and split_at_full (gsnap / gset = the
   *Snapshot / SnapshotSet of model directories).  Premise: snapshot ids are ordered byte-wise as the sequence
   numbers the model uses for them. *)
From Coq Require Import String.
From RQ Require Import Lib.GoLib.
From RQ Require Import Gen.SnapshotSet.
From RQ Require Import Proofs.C09_Gen.
Theorem C09_source_derived_eq : forall (enc : N -> string), (forall a b, String.ltb (enc a) (enc b) = (a <? b)%N) ->
  (forall a b, Snapshot_Less unit (gsnap enc a) (gsnap enc b) = dlt a b) /\
  (forall dir l, SnapshotSet_NewestFull unit (gset enc dir l) =
     match split_at_full l with Some (_, d, _) => (Some (gsnap enc d), true) | None => (None, false) end) /\
  (forall dir l, SnapshotSet_PartitionAtFull unit (gset enc dir l) =
     match split_at_full l with
     | Some (_, d, newer) => (gset enc dir [d], gset enc dir newer)
     | None => (gempty dir, gempty dir)
     end).
Proof. exact gen_catalog_eq. Qed.
Print Assumptions C09_source_derived_eq.
