(* C07 — property theorems only. *)
From Coq Require Import List NArith.
From RQ Require Import Lib.C07_Crash Model.C07 Proofs.C07.

(* Every crash image of a reap run, and every crash image of every later recovery run (any
   number of crashes), recovers: check() completes without error, the store opens, the newest
   snapshot has the (index, term) of the original newest and resolves to the same database.
   For every store shape (any number of older snapshots, WALs of the full, incrementals, WALs
   per incremental) and every SQLite whose interrupted checkpoints can be redone. *)
Theorem C07_crash_safe : forall D W (ckpt : D -> W -> D) part nwrites,
  (forall d w j, ckpt (part d w j) w = ckpt d w) ->
  forall s0, wf D W s0 ->
  forall s1, In s1 (images (reap_run D W ckpt part nwrites) s0) ->
  forall s, reach (recover D W ckpt part nwrites) s1 s ->
  exists f, result (recover D W ckpt part nwrites) s = Some f /\ fine D W ckpt s0 f.
Proof. exact reap_crash_safe. Qed.
Print Assumptions C07_crash_safe.

Theorem C07_crash_sequence : forall D W (ckpt : D -> W -> D) part nwrites,
  (forall d w j, ckpt (part d w j) w = ckpt d w) ->
  forall s0, wf D W s0 -> forall k1 ks,
  exists f, result (recover D W ckpt part nwrites)
              (fold_left (fun s k => crash_at (recover D W ckpt part nwrites) k s) ks
                 (nth k1 (images (reap_run D W ckpt part nwrites) s0) s0)) = Some f
            /\ fine D W ckpt s0 f.
Proof. exact reap_crash_sequence. Qed.
Print Assumptions C07_crash_sequence.

(* the LastOpDone shortcut of check() is sound *)
Theorem C07_last_op_done_sound : forall D W (ckpt : D -> W -> D) part nwrites,
  (forall d w j, ckpt (part d w j) w = ckpt d w) ->
  forall s0, wf D W s0 ->
  forall s1, In s1 (images (reap_run D W ckpt part nwrites) s0) ->
  forall s, reach (recover D W ckpt part nwrites) s1 s ->
  forall p', plan s = Some p' -> last_op_done D W s p' = true ->
  fine D W ckpt s0 (set_plan D W None s).
Proof. exact last_op_done_sound. Qed.
Print Assumptions C07_last_op_done_sound.

Theorem C07_reap_completes : forall D W (ckpt : D -> W -> D) part nwrites,
  (forall d w j, ckpt (part d w j) w = ckpt d w) ->
  forall s0, wf D W s0 ->
  exists f, result (reap_run D W ckpt part nwrites) s0 = Some f /\ fine D W ckpt s0 f.
Proof. exact reap_completes. Qed.
Print Assumptions C07_reap_completes.

(* the page-level SQLite used on the driver cases satisfies the hypothesis, so for it the
   statement is unconditional *)
Theorem C07_pages_redo : forall d w j, c_ckpt (c_part d w j) w = c_ckpt d w.
Proof. exact c_redo. Qed.
Print Assumptions C07_pages_redo.

Theorem C07_crash_safe_pages : forall s0 : cst, wf pages cwal s0 ->
  forall s1, In s1 (images c_reap s0) -> forall s, reach c_recover s1 s ->
  exists f, result c_recover s = Some f /\ fine pages cwal c_ckpt s0 f.
Proof. exact reap_crash_safe_pages. Qed.
Print Assumptions C07_crash_safe_pages.
