(* C20 — property theorems only. *)
From Coq Require Import List String NArith.
From RQ Require Import Model.C19 Model.C18 Model.C20 Proofs.C18 Proofs.C20.
From RQ Require Model.C16.
Import ListNotations.
Open Scope string_scope.

(* Refused locally with ErrNotLeader, no redirect asked, leader known, leader accepts the
   credentials: exactly one call on the leader, under exactly the caller's credentials; the client
   gets the leader's results and index unchanged, marked as served by the leader. *)
Theorem C20_forward_transparent : forall k e u p,
  f_local e = LNotLeader -> f_addr e = AKnown ->
  leader_authorizes k e u p = true -> l_db e = DOk ->
  serve k e false u p =
  ({| h_body := match k with KRemove | KStepdown => BEmpty | KLoad => BOther | _ => BResults end;
      h_status := 200;
      h_results := if has_results k then SLeader else SNobody;
      h_index := if json_errors k then SLeader else SNobody;
      h_served_by := match k with KBackup => SNobody | _ => SLeader end |},
   {| t_local := 1; t_addr := 1; t_remote := [(call_name k, u, p)] |}).
Proof. exact forward_transparent. Qed.
Print Assumptions C20_forward_transparent.

(* The client asked for a redirect: nothing is forwarded or executed; the answer is the redirect. *)
Theorem C20_redirect_not_forwarded : forall k e u p,
  f_local e = LNotLeader ->
  serve k e true u p =
  ({| h_body := BAny; h_status := if l_api_known e then 301 else 500;
      h_results := SNobody; h_index := SNobody; h_served_by := SNobody |},
   {| t_local := 1; t_addr := 0; t_remote := [] |}).
Proof. exact redirect_not_forwarded. Qed.
Print Assumptions C20_redirect_not_forwarded.

(* Credentials the leader rejects: nothing is executed on the leader, the client gets 401. *)
Theorem C20_forward_unauthorized : forall k e u p,
  f_local e = LNotLeader -> f_addr e = AKnown -> leader_authorizes k e u p = false ->
  serve k e false u p =
  ({| h_body := BAny; h_status := 401; h_results := SNobody; h_index := SNobody; h_served_by := SNobody |},
   {| t_local := 1; t_addr := 1; t_remote := [] |}).
Proof. exact forward_unauthorized. Qed.
Print Assumptions C20_forward_unauthorized.

(* Transparency for errors: the forwarded-to node executed the call and answered with an error
   ("not leader" from a node that has just lost leadership, "leader not found", "stale read", an
   execution error): one call there, and the client receives an error response carrying that
   error's text (200 + JSON error for execute/query/request, 500 otherwise; a backup stream cannot
   carry the text) — never a redirect it did not ask for, never nothing. *)
Theorem C20_forward_error_transparent : forall k e u p,
  f_local e = LNotLeader -> f_addr e = AKnown ->
  leader_authorizes k e u p = true -> l_db e = DErr ->
  serve k e false u p =
  ({| h_body := match k with KBackup => BAny | _ => BRemoteError end;
      h_status := if json_errors k then 200 else 500;
      h_results := SNobody; h_index := SNobody; h_served_by := SNobody |},
   {| t_local := 1; t_addr := 1; t_remote := [(call_name k, u, p)] |}).
Proof. exact forward_error_transparent. Qed.
Print Assumptions C20_forward_error_transparent.

(* The handler rule, in every environment: without ?redirect there is no 301, and the response is
   never "nothing" — an empty body only for a remove / stepdown that somebody executed (200 + served-by). *)
Theorem C20_redirect_only_if_requested : forall k e u p,
  let o := fst (serve k e false u p) in
  h_status o <> 301%N /\
  (h_body o = BEmpty -> (k = KRemove \/ k = KStepdown) /\ h_status o = 200%N /\ h_served_by o <> SNobody).
Proof. exact redirect_only_if_requested. Qed.
Print Assumptions C20_redirect_only_if_requested.

(* Always: one local attempt, at most one call on the leader (only for a refused request without
   redirect, only under the caller's credentials), and results are attributed to who executed. *)
Theorem C20_at_most_once : forall k e nf u p,
  let '(o, t) := serve k e nf u p in
  t_local t = 1 /\ (List.length (t_remote t) <= 1)%nat /\
  (forall c, In c (t_remote t) -> c = (call_name k, u, p) /\ f_local e = LNotLeader /\ nf = false) /\
  (h_results o = SLeader \/ h_index o = SLeader \/ h_served_by o = SLeader -> t_remote t = [(call_name k, u, p)]) /\
  (h_results o = SFollower \/ h_index o = SFollower \/ h_served_by o = SFollower -> f_local e = LOk /\ t_remote t = []).
Proof. exact at_most_once. Qed.
Print Assumptions C20_at_most_once.

(* A strong/weak read or a unified request with a write, arriving at a follower (Model.C16's
   dispatch of store.Store): not executed on the follower's database nor through its log, and the
   client never receives follower results.
   `partial`: Execute/Load/Remove/Stepdown on a follower are refused by a leader check read from
   store.go but not modelled; LINEARIZABLE is C02's; leadership changes in flight are not modelled. *)
Theorem C20_never_local_on_follower_partial : forall n r k e nf u p,
  C16.n_leader n = false -> needs_leader n r = true ->
  f_local e = lres_of (C16.dispatch n r) ->
  (match C16.dispatch n r with C16.Local _ | C16.ViaLog _ _ => False | _ => True end) /\
  let '(o, t) := serve k e nf u p in
  h_results o <> SFollower /\ h_index o <> SFollower /\ h_served_by o <> SFollower /\ t_local t = 1.
Proof. exact never_local_on_follower. Qed.
Print Assumptions C20_never_local_on_follower_partial.

(* The follower's connection pool: a connection on which a forwarded request timed out is never
   used again, none with an owed answer stays in the pool, and every forwarded request that is
   answered is answered with the leader's results for THAT request (ids), for every sequence of
   requests and every choice of slow ones. *)
Theorem C20_pool_transparent : forall ss,
  let '(rs, st') := forward_all false pstate0 ss in
  Forall2 (fun s r => r = Some (ps_id s) \/ (r = None /\ ps_slow s = true)) ss rs
  /\ pl_reused st' = false /\ owed st' = 0%nat.
Proof. exact pool_transparent0. Qed.
Print Assumptions C20_pool_transparent.
