(* Facts about Store.lastCommandIndex and waitForLinearizableRead used by C02, C16 and C38. *)
From Coq Require Import List NArith Bool Lia ZifyBool ZifyNat ZifyN.
From RQ Require Import Model.C02_ReadIndex.
Import ListNotations.
Open Scope N_scope.

(* ---- scan_down ---- *)

Lemma scan_down_range lo desc : forall i,
  i = lo + N.of_nat (length desc) -> lo <= scan_down lo i desc <= i.
Proof.
  induction desc as [|e desc IH]; intros i Hi; cbn [scan_down length] in *.
  - lia.
  - destruct e as [k|]; [|lia].
    destruct (is_cmd k); [lia|].
    specialize (IH (N.pred i)). lia.
Qed.

(* the entry at position j of the descending list has index i - j *)
Lemma scan_down_sound lo desc : forall i j,
  i = lo + N.of_nat (length desc) ->
  nth_error desc j = Some (Some KCommand) ->
  (forall j', (j' <= j)%nat -> nth_error desc j' <> Some None) ->
  i - N.of_nat j <= scan_down lo i desc.
Proof.
  induction desc as [|e desc IH]; intros i j Hi Hj Hvis.
  - destruct j; discriminate.
  - cbn [scan_down length] in *. destruct j as [|j].
    + cbn [nth_error] in Hj. injection Hj as ->. cbn [is_cmd]. lia.
    + destruct e as [k|].
      * destruct (is_cmd k) eqn:Ek.
        -- lia.
        -- cbn [nth_error] in Hj.
           assert (H := IH (N.pred i) j ltac:(lia) Hj
                          (fun j' Hle => Hvis (S j') ltac:(lia))).
           lia.
      * exfalso. apply (Hvis 0%nat); [lia | reflexivity].
Qed.

(* what is returned is lo or the index of a Command entry *)
Lemma scan_down_hits lo desc : forall i,
  i = lo + N.of_nat (length desc) ->
  scan_down lo i desc = lo \/
  exists j, nth_error desc j = Some (Some KCommand) /\ scan_down lo i desc = i - N.of_nat j /\ (j < length desc)%nat.
Proof.
  induction desc as [|e desc IH]; intros i Hi; cbn [scan_down length] in *.
  - now left.
  - destruct e as [k|]; [|now left].
    destruct (is_cmd k) eqn:Ek.
    + right. exists 0%nat. destruct k; try discriminate. cbn [nth_error]. repeat split; lia.
    + destruct (IH (N.pred i) ltac:(lia)) as [H | (j & Hn & He & Hl)]; [now left|].
      right. exists (S j). cbn [nth_error]. repeat split; [assumption | lia | lia].
Qed.

(* no Command among the visible entries: nothing to wait for *)
Lemma scan_down_none lo desc : forall i,
  (forall k, In (Some k) desc -> is_cmd k = false) -> scan_down lo i desc = lo.
Proof.
  induction desc as [|e desc IH]; intros i H; cbn [scan_down]; [reflexivity|].
  destruct e as [k|]; [|reflexivity].
  rewrite (H k (or_introl eq_refl)). apply IH. intros k' Hk'. apply H. now right.
Qed.

(* ---- the same in terms of log indexes ---- *)

(* the entry of index idx among the entries lo+1.. given in ascending order *)
Definition entry_of (lo : N) (asc : list (option kind)) (idx : N) : option (option kind) :=
  if idx <=? lo then None else nth_error asc (N.to_nat (idx - lo - 1)).

Lemma last_command_index_range lo hi asc :
  hi = lo + N.of_nat (length asc) -> lo <= last_command_index lo hi asc <= hi.
Proof.
  intros H. unfold last_command_index. apply scan_down_range. rewrite rev_length. exact H.
Qed.

Lemma nth_error_rev {A} (l : list A) j :
  (j < length l)%nat -> nth_error (rev l) j = nth_error l (length l - 1 - j).
Proof.
  intros Hj. destruct (nth_error l (length l - 1 - j)) eqn:E.
  - apply nth_error_split in E as (l1 & l2 & -> & Hl).
    rewrite rev_app_distr. cbn [rev]. rewrite <- app_assoc. cbn [app].
    rewrite app_length in Hj, Hl. cbn [length] in Hj, Hl.
    rewrite nth_error_app2 by (rewrite rev_length; lia).
    rewrite rev_length. replace (j - length l2)%nat with 0%nat by lia. reflexivity.
  - apply nth_error_None in E. lia.
Qed.

Theorem last_command_index_sound lo hi asc idx :
  hi = lo + N.of_nat (length asc) ->
  lo < idx <= hi ->
  entry_of lo asc idx = Some (Some KCommand) ->
  (forall idx', idx <= idx' <= hi -> entry_of lo asc idx' <> Some None) ->
  idx <= last_command_index lo hi asc.
Proof.
  intros Hhi Hidx He Hvis. unfold last_command_index.
  set (j := N.to_nat (hi - idx)).
  assert (Hj : (j < length asc)%nat) by lia.
  assert (E := scan_down_sound lo (rev asc) hi j).
  replace (hi - N.of_nat j) with idx in E by lia.
  apply E.
  - rewrite rev_length. exact Hhi.
  - rewrite nth_error_rev by exact Hj. unfold entry_of in He.
    destruct (idx <=? lo) eqn:El; [lia|].
    replace (length asc - 1 - j)%nat with (N.to_nat (idx - lo - 1)) by lia. exact He.
  - intros j' Hj' Hn. rewrite nth_error_rev in Hn by lia.
    apply (Hvis (hi - N.of_nat j')); [lia|].
    unfold entry_of. destruct (hi - N.of_nat j' <=? lo) eqn:El; [lia|].
    replace (N.to_nat (hi - N.of_nat j' - lo - 1)) with (length asc - 1 - j')%nat by lia. exact Hn.
Qed.

Theorem last_command_index_hits lo hi asc :
  hi = lo + N.of_nat (length asc) ->
  let t := last_command_index lo hi asc in
  t = lo \/ (lo < t <= hi /\ entry_of lo asc t = Some (Some KCommand)).
Proof.
  intros Hhi t. subst t. unfold last_command_index.
  destruct (scan_down_hits lo (rev asc) hi) as [H | (j & Hn & He & Hl)].
  - rewrite rev_length. exact Hhi.
  - now left.
  - right. rewrite rev_length in Hl. rewrite He. split; [lia|].
    rewrite nth_error_rev in Hn by exact Hl.
    unfold entry_of. destruct (hi - N.of_nat j <=? lo) eqn:El; [lia|].
    replace (N.to_nat (hi - N.of_nat j - lo - 1)) with (length asc - 1 - j)%nat by lia. exact Hn.
Qed.

(* ---- waitForLinearizableRead ---- *)

Definition obs_wf (o : lin_obs) : Prop :=
  lo_fsm_idx o <= lo_commit o -> lo_commit o = lo_fsm_idx o + N.of_nat (length (lo_kinds o)).

(* LinOk: the protocol of Raft dissertation 6.4 was followed *)
Theorem wait_lin_ok o :
  wait_lin o = LinOk ->
  lo_term o = lo_srt o /\ lo_leader o = true /\ lo_ready o = true /\ lo_verify o = VOk
  /\ lo_term_after o = lo_term o /\ lin_wait o = LinOk.
Proof.
  unfold wait_lin. intros H.
  destruct (lo_term o =? lo_srt o) eqn:E1; cbn [negb] in H; [|discriminate].
  destruct (lo_leader o); cbn [negb] in H; [|discriminate].
  destruct (lo_ready o); cbn [negb] in H; [|discriminate].
  destruct (lo_verify o); try discriminate.
  destruct (lo_term_after o =? lo_term o) eqn:E2; cbn [negb] in H; [|discriminate].
  repeat split; try reflexivity; try assumption; lia.
Qed.

(* every read that passes has had a leadership check of its own: the call got as far as
   VerifyLeader and that verification - not an earlier one - succeeded *)
Theorem wait_lin_ok_own_verify o :
  wait_lin o = LinOk -> lin_calls_verify o = true /\ lo_verify o = VOk.
Proof.
  intros H. destruct (wait_lin_ok o H) as (H1 & H2 & H3 & H4 & _).
  split; [|exact H4]. unfold lin_calls_verify. rewrite H1, H2, H3, N.eqb_refl. reflexivity.
Qed.

(* ... and when the wait is over every Command entry up to the commit index read at the
   start that is still in the log has been signalled by the FSM (or was applied before
   the read began: index <= fsmIdx). *)
Theorem lin_wait_applied o idx :
  obs_wf o ->
  lin_wait o = LinOk ->
  lo_fsm_idx o < idx <= lo_commit o ->
  entry_of (lo_fsm_idx o) (lo_kinds o) idx = Some (Some KCommand) ->
  (forall idx', idx <= idx' <= lo_commit o -> entry_of (lo_fsm_idx o) (lo_kinds o) idx' <> Some None) ->
  idx <= lo_reached o.
Proof.
  intros Hwf Hw Hidx He Hvis. unfold lin_wait, lin_target in Hw.
  destruct (lo_commit o <=? lo_fsm_idx o) eqn:Ec; [lia|].
  assert (Hhi : lo_commit o = lo_fsm_idx o + N.of_nat (length (lo_kinds o))) by (apply Hwf; lia).
  assert (S := last_command_index_sound (lo_fsm_idx o) (lo_commit o) (lo_kinds o) idx Hhi Hidx He Hvis).
  destruct (last_command_index (lo_fsm_idx o) (lo_commit o) (lo_kinds o) =? lo_fsm_idx o) eqn:Et; [lia|].
  destruct (last_command_index (lo_fsm_idx o) (lo_commit o) (lo_kinds o) <=? lo_reached o) eqn:Er; [lia|discriminate].
Qed.

(* a read index at or below fsmIdx is waited for as such *)
Theorem lin_wait_low o :
  lo_commit o <= lo_fsm_idx o -> lin_wait o = LinOk -> lo_commit o <= lo_reached o.
Proof.
  intros Hc Hw. unfold lin_wait, lin_target in Hw.
  destruct (lo_commit o <=? lo_fsm_idx o) eqn:Ec; [|lia].
  destruct (lo_commit o <=? lo_reached o) eqn:Er; [lia|discriminate].
Qed.

Example ex_obs : lin_obs :=
  {| lo_term := 3; lo_srt := 3; lo_leader := true; lo_ready := true; lo_commit := 9; lo_verify := VOk;
     lo_term_after := 3; lo_fsm_idx := 5;
     lo_kinds := [Some KConfig; Some KCommand; Some KBarrier; Some KConfig]; lo_reached := 7 |}.
Example ex_obs_ok : wait_lin ex_obs = LinOk /\ lin_target ex_obs = Some 7 /\ obs_wf ex_obs.
Proof. split; [|split]; vm_compute; auto. Qed.
