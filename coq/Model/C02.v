(* C02 — model of rqlite's part of a linearizable history: the replicated log as one sequence
   of entries, the sequential database it defines, and the read protocol of
   Store.Query/Request at level linearizable (Model/C02_ReadIndex.v, dispatch in Model/C16.v).
   Executable definitions only; proofs are in Proofs/C02.v. *)
From Coq Require Import List NArith Bool.
From RQ Require Export Model.C02_ReadIndex.
Import ListNotations.
Local Open Scope N_scope.

(* ---------- the sequential database ---------- *)

(* a committed log entry as the register workload sees it: a write of v to key k, or anything
   else (a strong-read command, no-op, configuration change, barrier) *)
Inductive lentry := LWrite (k v : N) | LOther.

(* the value of key k after the entries have been applied in order; 0 = never written *)
Fixpoint replay (es : list lentry) (k : N) (cur : N) : N :=
  match es with
  | [] => cur
  | LWrite k' v :: r => replay r k (if k' =? k then v else cur)
  | LOther :: r => replay r k cur
  end.

(* the database a node holds once its FSM has applied the first a entries *)
Definition db_at (log : list lentry) (a : N) (k : N) : N := replay (firstn (N.to_nat a) log) k 0.

(* ---------- client operations and their linearization points ---------- *)

(* what is known of a completed linearizable read: what waitForLinearizableRead read, when it
   read the commit index, what the FSM had applied when the local query ran, and when that was *)
Record lin_read := {
  lr_obs : lin_obs;
  lr_t0 : N;
  lr_applied : N;
  lr_tq : N
}.

Inductive op :=
  | OpWrite (inv resp idx k v : N)            (* acknowledged write and the index of its log entry *)
  | OpStrong (inv resp idx k ret : N)         (* strong read: a log entry of its own *)
  | OpLin (inv resp : N) (r : lin_read) (k ret : N).

Definition op_inv (o : op) : N := match o with OpWrite i _ _ _ _ | OpStrong i _ _ _ _ | OpLin i _ _ _ _ => i end.
Definition op_resp (o : op) : N := match o with OpWrite _ r _ _ _ | OpStrong _ r _ _ _ | OpLin _ r _ _ _ => r end.

(* where the operation takes effect: entries are at even points, a linearizable read that saw
   the first a entries sits just after entry a *)
Definition op_point (o : op) : N :=
  match o with
  | OpWrite _ _ idx _ _ | OpStrong _ _ idx _ _ => 2 * idx
  | OpLin _ _ r _ _ => 2 * lr_applied r + 1
  end.

(* the order of the linearization: by point, reads at the same point by invocation *)
Definition lin_before (x y : op) : Prop :=
  op_point x < op_point y \/ (op_point x = op_point y /\ op_inv x < op_inv y).

(* ---------- strongReadTerm ---------- *)

(* what happens to the strong reads a node sends through its log (Query at level strong or
   upgraded, Request carrying a read): handed to raft.Apply, come back applied, or fail.
   Store.Query/Request store the read term in strongReadTerm only after the apply future has
   answered without error, i.e. after the FSM has applied the read's own entry. *)
Inductive srt_event :=
  | SQueued (read_term : N)
  | SApplied (read_term : N)
  | SFailed (read_term : N).

Definition srt_step (srt : N) (e : srt_event) : N :=
  match e with SApplied t => t | SQueued _ | SFailed _ => srt end.

Definition srt_run (srt : N) (es : list srt_event) : N := fold_left srt_step es srt.

(* ---------- correspondence ---------- *)

(* a step trace of one waitForLinearizableRead call *)
Record trace := {
  c_obs : lin_obs;           (* what the call read, observed around it on the live node *)
  c_result : lin_result;     (* what it returned *)
  c_verified : bool          (* a VerifyLeader was counted during the call *)
}.

(* one linearizable read (Query/Request) of a group started while a strong read of the term is
   still in flight: what it read when it began, except strongReadTerm - that is the model's -
   and whether it was turned into a strong read *)
Record mid_read := {
  m_obs : lin_obs;           (* lo_srt is ignored *)
  m_upgraded : bool
}.

(* first reads of a term: strongReadTerm before, the strong-read events up to the moment
   strongReadTerm was sampled (reads queued, none applied yet), the sampled value, the reads
   started in that window, and the value after all of them have come back *)
Record first_reads := {
  f_term : N;
  f_srt0 : N;
  f_events : list srt_event;
  f_sampled : N;
  f_reads : list mid_read;
  f_done : list srt_event;   (* what happened afterwards: the queued reads applied *)
  f_srt_after : N
}.

Inductive case :=
  | CTrace (t : trace)
  | CFirst (f : first_reads).

Definition lin_result_eqb (a b : lin_result) : bool :=
  match a, b with
  | LinOk, LinOk | LinStrongNeeded, LinStrongNeeded | LinNotLeader, LinNotLeader | LinNotReady, LinNotReady
  | LinVerifyFailed, LinVerifyFailed | LinTermChanged, LinTermChanged | LinTimeout, LinTimeout => true
  | _, _ => false
  end.

Definition with_srt (o : lin_obs) (srt : N) : lin_obs :=
  {| lo_term := lo_term o; lo_srt := srt; lo_leader := lo_leader o; lo_ready := lo_ready o;
     lo_commit := lo_commit o; lo_verify := lo_verify o; lo_term_after := lo_term_after o;
     lo_fsm_idx := lo_fsm_idx o; lo_kinds := lo_kinds o; lo_reached := lo_reached o |}.

(* is the read turned into a strong read, strongReadTerm being what the model says it is *)
Definition predicts_upgrade (srt : N) (r : mid_read) : bool :=
  lin_result_eqb (wait_lin (with_srt (m_obs r) srt)) LinStrongNeeded.

Definition check_first (f : first_reads) : bool :=
  let srt_mid := srt_run (f_srt0 f) (f_events f) in
  (srt_mid =? f_sampled f)
  && forallb (fun r => Bool.eqb (predicts_upgrade srt_mid r) (m_upgraded r)) (f_reads f)
  && (srt_run srt_mid (f_done f) =? f_srt_after f).

Definition check_case (c : case) : bool :=
  match c with
  | CTrace t =>
      lin_result_eqb (wait_lin (c_obs t)) (c_result t)
      && Bool.eqb (lin_calls_verify (c_obs t)) (c_verified t)
  | CFirst f => check_first f
  end.
