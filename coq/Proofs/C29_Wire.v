(* C29, layer 2 — decode (encode m) = Some m for the wire format of Model.C29_Wire. *)
From Coq Require Import List String Bool NArith ZArith Lia ZifyBool ZifyN ZifyNat.
From RQ Require Import Model.C29_Wire Model.C29.
Import ListNotations.
Open Scope list_scope.
Open Scope N_scope.

(* ---------------------------------------------------------------- varint *)
Lemma varint_aux fuel : forall n rest, n < 128 * 128 ^ N.of_nat fuel ->
  dec_varint (enc_varint_aux fuel n ++ rest) = Some (n, rest).
Proof.
  induction fuel as [|f IH]; intros n rest Hn.
  - cbn [enc_varint_aux app dec_varint]. change (128 ^ N.of_nat 0) with 1 in Hn.
    destruct (N.ltb_spec n 128); [reflexivity | lia].
  - cbn [enc_varint_aux]. destruct (N.ltb_spec n 128) as [Hs|Hb].
    + cbn [app dec_varint]. destruct (N.ltb_spec n 128); [reflexivity | lia].
    + cbn [app dec_varint].
      assert (Hm : n mod 128 < 128) by (apply N.mod_lt; lia).
      destruct (N.ltb_spec (n mod 128 + 128) 128); [lia|].
      rewrite IH.
      * f_equal. f_equal. pose proof (N.div_mod n 128). lia.
      * rewrite Nat2N.inj_succ, N.pow_succ_r' in Hn.
        apply N.div_lt_upper_bound; lia.
Qed.

Lemma varint n rest : dec_varint (enc_varint n ++ rest) = Some (n, rest).
Proof.
  unfold enc_varint. apply varint_aux. rewrite N2Nat.id.
  destruct (N.eq_dec n 0) as [->|Hn]; [cbn; lia|].
  assert (Hl : n < 2 ^ N.succ (N.log2 n)) by (apply N.log2_spec; lia).
  assert (Hp : 2 ^ N.succ (N.log2 n) <= 128 * 128 ^ N.log2 n).
  { change 128 with (2 ^ 7) at 2. rewrite <- N.pow_mul_r. change 128 with (2 ^ 7). rewrite <- N.pow_add_r.
    apply N.pow_le_mono_r; lia. }
  lia.
Qed.

Lemma enc_varint_nonempty n : enc_varint n <> [].
Proof. unfold enc_varint. destruct (N.to_nat (N.log2 n)); cbn [enc_varint_aux]; [discriminate|]. destruct (n <? 128); discriminate. Qed.

(* ---------------------------------------------------------------- fixed64 *)
Lemma le_roundtrip k : forall n rest, n < 256 ^ N.of_nat k -> dec_le k (enc_le k n ++ rest) = Some (n, rest).
Proof.
  induction k as [|k IH]; intros n rest Hn.
  - cbn in *. f_equal. f_equal. lia.
  - cbn [enc_le app dec_le]. rewrite IH.
    + f_equal. f_equal. pose proof (N.div_mod n 256). lia.
    + rewrite Nat2N.inj_succ, N.pow_succ_r' in Hn. apply N.div_lt_upper_bound; lia.
Qed.

(* ---------------------------------------------------------------- take / drop *)
Lemma take_app b rest : take (lenN b) (b ++ rest) = b.
Proof.
  induction b as [|x b IH]; cbn [app].
  - unfold lenN; cbn [List.length]. destruct rest; reflexivity.
  - unfold lenN in *. cbn [List.length take]. destruct (N.eqb_spec (N.of_nat (S (List.length b))) 0); [lia|].
    replace (N.pred (N.of_nat (S (List.length b)))) with (N.of_nat (List.length b)) by lia. now rewrite IH.
Qed.

Lemma drop_app b rest : drop (lenN b) (b ++ rest) = rest.
Proof.
  induction b as [|x b IH]; cbn [app].
  - unfold lenN; cbn [List.length]. destruct rest; reflexivity.
  - unfold lenN in *. cbn [List.length drop]. destruct (N.eqb_spec (N.of_nat (S (List.length b))) 0); [lia|].
    replace (N.pred (N.of_nat (S (List.length b)))) with (N.of_nat (List.length b)) by lia. exact IH.
Qed.

(* ---------------------------------------------------------------- the generic parser *)
Definition wf_field (f : field) : Prop := match snd f with WF64 n => n < two64 | _ => True end.

Lemma tag_split k w : w < 8 -> (k * 8 + w) / 8 = k /\ (k * 8 + w) mod 8 = w.
Proof.
  intros Hw.
  assert (H := N.div_mod (k * 8 + w) 8).
  assert (H2 : (k * 8 + w) mod 8 < 8) by (apply N.mod_lt; lia).
  nia.
Qed.

Lemma enc_field_nonempty f : enc_field f <> [].
Proof.
  unfold enc_field. destruct (snd f); intros H; apply app_eq_nil in H; destruct H as [H _]; revert H; apply enc_varint_nonempty.
Qed.

Lemma parse_enc fs : Forall wf_field fs ->
  forall fuel, (List.length (enc_fields fs) <= fuel)%nat -> parse_aux fuel (enc_fields fs) = Some fs.
Proof.
  induction 1 as [|f fs Hf _ IH]; intros fuel Hfuel.
  - destruct fuel; reflexivity.
  - unfold enc_fields in *. cbn [flat_map] in *. set (tail := flat_map enc_field fs) in *.
    rewrite app_length in Hfuel.
    pose proof (enc_field_nonempty f) as Hne.
    destruct (enc_field f) as [|x0 xs] eqn:Ef; [congruence|]. clear Hne.
    destruct fuel as [|fuel]; [cbn in Hfuel; lia|].
    assert (Hrest : (List.length tail <= fuel)%nat) by (cbn [List.length] in Hfuel; lia).
    specialize (IH fuel Hrest).
    cbn [app parse_aux]. change (x0 :: xs ++ tail) with ((x0 :: xs) ++ tail).
    rewrite <- Ef. clear Ef x0 xs Hfuel.
    destruct f as [k v]. unfold enc_field, wf_field in *. cbn [fst snd] in *.
    destruct v as [n|n|b]; rewrite <- app_assoc, varint.
    + destruct (tag_split k 0 ltac:(lia)) as (-> & ->). cbn [N.eqb].
      rewrite varint, IH. reflexivity.
    + destruct (tag_split k 1 ltac:(lia)) as (-> & ->). cbn [N.eqb Pos.eqb].
      rewrite le_roundtrip by (exact Hf). rewrite IH. reflexivity.
    + destruct (tag_split k 2 ltac:(lia)) as (-> & ->). cbn [N.eqb Pos.eqb].
      rewrite <- app_assoc, varint.
      assert (Hl : lenN b <=? lenN (b ++ tail) = true).
      { unfold lenN. rewrite app_length. apply N.leb_le. lia. }
      rewrite Hl, take_app, drop_app, IH. reflexivity.
Qed.

Lemma parse_roundtrip fs : Forall wf_field fs -> parse (enc_fields fs) = Some fs.
Proof. intros H. unfold parse. now apply parse_enc. Qed.

(* ---------------------------------------------------------------- scalars *)
Definition in64 (z : Z) : Prop := (- 9223372036854775808 <= z < 9223372036854775808)%Z.

Lemma int64_roundtrip z : in64 z -> int64_of_n (n_of_int64 z) = z.
Proof.
  unfold in64, int64_of_n, n_of_int64, two63, two64. intros H.
  destruct (Z.ltb_spec z 0).
  - destruct (N.ltb_spec (Z.to_N (Z.of_N 18446744073709551616 + z)) 9223372036854775808); lia.
  - destruct (N.ltb_spec (Z.to_N z) 9223372036854775808); lia.
Qed.

Lemma zigzag_roundtrip z : unzigzag (zigzag z) = z.
Proof.
  unfold unzigzag, zigzag. destruct (Z.ltb_spec z 0) as [Hn|Hp].
  - set (k := Z.to_N (- z - 1)).
    replace (Z.to_N (- 2 * z - 1)) with (1 + 2 * k) by lia.
    rewrite N.even_add_mul_2. cbn [N.even].
    replace (1 + 2 * k + 1) with ((k + 1) * 2) by lia. rewrite N.div_mul by lia. lia.
  - set (k := Z.to_N z).
    replace (Z.to_N (2 * z)) with (0 + 2 * k) by lia.
    rewrite N.even_add_mul_2. cbn [N.even].
    replace (0 + 2 * k) with (k * 2) by lia. rewrite N.div_mul by lia. lia.
Qed.

(* ---------------------------------------------------------------- folding *)
Lemma fold_opt_app {S} (step : S -> field -> option S) a b s :
  fold_opt step (a ++ b) s = match fold_opt step a s with Some s' => fold_opt step b s' | None => None end.
Proof.
  revert s; induction a as [|f a IH]; intros s; cbn [app fold_opt]; [reflexivity|].
  destruct (step s f); [apply IH | reflexivity].
Qed.

Lemma wf_map_wlen {A} k (g : A -> bytes) l : Forall wf_field (map (fun x => (k, WLen (g x))) l).
Proof. induction l; cbn [map]; constructor; [exact I | assumption]. Qed.
Lemma wf_f_bool k b : Forall wf_field (f_bool k b).
Proof. destruct b; repeat constructor. Qed.
Lemma wf_f_int64 k z : Forall wf_field (f_int64 k z).
Proof. unfold f_int64. destruct (Z.eqb z 0); repeat constructor. Qed.
Lemma wf_f_enum k n : Forall wf_field (f_enum k n).
Proof. unfold f_enum. destruct (n =? 0); repeat constructor. Qed.
Lemma wf_f_bytes k b : Forall wf_field (f_bytes k b).
Proof. destruct b; repeat constructor. Qed.
Lemma wf_f_request k r : Forall wf_field (f_request k r).
Proof. destruct r; repeat constructor. Qed.
#[local] Hint Resolve wf_map_wlen wf_f_bool wf_f_int64 wf_f_enum wf_f_bytes wf_f_request : wfdb.
Ltac wf_fields := repeat (apply Forall_app; split); auto with wfdb.

(* ---------------------------------------------------------------- Param *)
Definition wf_param (p : param) : Prop := match p_value p with PD d => d < two64 | _ => True end.

Lemma param_roundtrip p : wf_param p -> dec_param (enc_param p) = Some p.
Proof.
  intros Hwf. unfold dec_param, enc_param. rewrite parse_roundtrip.
  - destruct p as [v nm]. unfold fields_of_param. cbn [p_value p_name].
    destruct nm as [|x l]; destruct v as [|z|d|b|y|s];
      cbn [f_bytes is_nil app fold_opt step_param p_value p_name param0];
      rewrite ?zigzag_roundtrip; try reflexivity.
    + destruct b; reflexivity.
    + destruct b; reflexivity.
  - unfold fields_of_param. wf_fields. unfold wf_param in Hwf.
    destruct (p_value p); repeat constructor. exact Hwf.
Qed.

(* ---------------------------------------------------------------- Statement *)
Definition wf_stmt (s : stmt) : Prop := Forall wf_param (s_params s).

Lemma fold_params ps : Forall wf_param ps -> forall s0,
  fold_opt step_stmt (map (fun p => (2, WLen (enc_param p))) ps) s0 =
  Some {| s_sql := s_sql s0; s_params := s_params s0 ++ ps; s_force_query := s_force_query s0;
          s_force_stall := s_force_stall s0; s_explain := s_explain s0 |}.
Proof.
  induction 1 as [|p ps Hp _ IH]; intros s0.
  - cbn [map fold_opt]. rewrite app_nil_r. destruct s0; reflexivity.
  - cbn [map fold_opt step_stmt]. rewrite (param_roundtrip p Hp), IH.
    cbn [s_sql s_params s_force_query s_force_stall s_explain]. rewrite <- app_assoc. reflexivity.
Qed.

Lemma stmt_roundtrip s : wf_stmt s -> dec_stmt (enc_stmt s) = Some s.
Proof.
  intros Hwf. unfold dec_stmt, enc_stmt. rewrite parse_roundtrip.
  - destruct s as [sql ps fq fs ex]. unfold fields_of_stmt, wf_stmt in *.
    cbn [s_sql s_params s_force_query s_force_stall s_explain] in *.
    destruct sql as [|x l]; destruct fq, fs, ex;
      cbn [f_bytes f_bool is_nil app fold_opt step_stmt stmt0 s_sql s_params s_force_query s_force_stall s_explain];
      rewrite fold_opt_app, (fold_params ps Hwf);
      cbn [app fold_opt step_stmt s_sql s_params s_force_query s_force_stall s_explain]; reflexivity.
  - unfold fields_of_stmt. wf_fields.
Qed.

(* ---------------------------------------------------------------- Request *)
Definition wf_request (r : request) : Prop := Forall wf_stmt (r_stmts r) /\ in64 (r_timeout r).

Lemma fold_stmts ss : Forall wf_stmt ss -> forall r0,
  fold_opt step_request (map (fun s => (2, WLen (enc_stmt s))) ss) r0 =
  Some {| r_tx := r_tx r0; r_stmts := r_stmts r0 ++ ss; r_timeout := r_timeout r0;
          r_rollback := r_rollback r0; r_qualify := r_qualify r0 |}.
Proof.
  induction 1 as [|s ss Hs _ IH]; intros r0.
  - cbn [map fold_opt]. rewrite app_nil_r. destruct r0; reflexivity.
  - cbn [map fold_opt step_request]. rewrite (stmt_roundtrip s Hs), IH.
    cbn [r_tx r_stmts r_timeout r_rollback r_qualify]. rewrite <- app_assoc. reflexivity.
Qed.

Lemma request_roundtrip r : wf_request r -> dec_request (enc_request r) = Some r.
Proof.
  intros (Hss & Ht). unfold dec_request, enc_request. rewrite parse_roundtrip.
  - destruct r as [tx ss tmo rb ql]. unfold fields_of_request, f_int64.
    cbn [r_tx r_stmts r_timeout r_rollback r_qualify] in *.
    destruct (Z.eqb_spec tmo 0) as [->|Hz]; destruct tx, rb, ql;
      cbn [f_bool app fold_opt step_request request0 r_tx r_stmts r_timeout r_rollback r_qualify];
      rewrite fold_opt_app, (fold_stmts ss Hss);
      cbn [app fold_opt step_request r_tx r_stmts r_timeout r_rollback r_qualify];
      rewrite ?int64_roundtrip by assumption; reflexivity.
  - unfold fields_of_request. wf_fields.
Qed.

(* ---------------------------------------------------------------- the sub-command messages *)
Definition wf_orequest (r : option request) : Prop := match r with Some x => wf_request x | None => True end.
Definition wf_qreq (q : qreq) : Prop := wf_orequest (q_request q) /\ in64 (q_freshness q) /\ in64 (q_lin_timeout q).

Lemma qreq_roundtrip q : wf_qreq q -> fold_opt step_qreq (fields_of_qreq q) qreq0 = Some q.
Proof.
  intros (Hr & Hf & Hl). destruct q as [r tm lv fr st lt]. unfold fields_of_qreq, f_int64, f_enum.
  cbn [q_request q_timings q_level q_freshness q_strict q_lin_timeout] in *.
  destruct r as [r|]; destruct tm, st; destruct (N.eqb_spec lv 0) as [->|Hlv];
    destruct (Z.eqb_spec fr 0) as [->|Hfr]; destruct (Z.eqb_spec lt 0) as [->|Hlt];
    cbn [f_request f_bool app fold_opt step_qreq qreq0 q_request q_timings q_level q_freshness q_strict q_lin_timeout];
    rewrite ?(request_roundtrip r Hr);
    cbn [f_request f_bool app fold_opt step_qreq qreq0 q_request q_timings q_level q_freshness q_strict q_lin_timeout];
    rewrite ?int64_roundtrip by assumption; reflexivity.
Qed.

Lemma ereq_roundtrip e : wf_orequest (e_request e) -> fold_opt step_ereq (fields_of_ereq e) ereq0 = Some e.
Proof.
  intros Hr. destruct e as [r tm]. unfold fields_of_ereq. cbn [e_request e_timings] in *.
  destruct r as [r|]; destruct tm;
    cbn [f_request f_bool app fold_opt step_ereq ereq0 e_request e_timings];
    rewrite ?(request_roundtrip r Hr); cbn [fold_opt step_ereq e_request e_timings]; reflexivity.
Qed.

Lemma lchunk_roundtrip c : in64 (lc_seq c) -> fold_opt step_lchunk (fields_of_lchunk c) lchunk0 = Some c.
Proof.
  intros Hs. destruct c as [sid sq la da ab]. unfold fields_of_lchunk, f_int64. cbn [lc_stream lc_seq lc_last lc_data lc_abort] in *.
  destruct sid as [|x l]; destruct da as [|y m]; destruct la, ab; destruct (Z.eqb_spec sq 0) as [->|Hq];
    cbn [f_bytes f_bool is_nil app fold_opt step_lchunk lchunk0 lc_stream lc_seq lc_last lc_data lc_abort];
    rewrite ?int64_roundtrip by assumption; reflexivity.
Qed.

Lemma single_roundtrip b : fold_opt step_single (f_bytes 1 b) [] = Some b.
Proof. destruct b; reflexivity. Qed.

(* the messages the wire codec is specified for: 64-bit integers in range, doubles as 64-bit patterns *)
Definition wf_body (b : body) : Prop :=
  match b with
  | BQuery q | BExecQuery q => wf_qreq q
  | BExecute e => wf_orequest (e_request e)
  | BLoadChunk c => in64 (lc_seq c)
  | BLoad _ | BNoop _ => True
  end.

Theorem body_roundtrip b : wf_body b -> wire_dec_body (ctype_of b) (wire_enc_body b) = Some b.
Proof.
  intros Hwf. unfold wire_dec_body, wire_enc_body. rewrite parse_roundtrip.
  - destruct b as [q|e|q|d|c|id]; cbn [ctype_of wf_body] in *.
    + now rewrite qreq_roundtrip.
    + now rewrite ereq_roundtrip.
    + now rewrite qreq_roundtrip.
    + now rewrite single_roundtrip.
    + now rewrite lchunk_roundtrip.
    + now rewrite single_roundtrip.
  - destruct b; unfold fields_of_qreq, fields_of_ereq, fields_of_lchunk; wf_fields.
Qed.

Theorem command_roundtrip c : wire_dec_command (wire_enc_command c) = Some c.
Proof.
  unfold wire_dec_command, wire_enc_command. rewrite parse_roundtrip.
  - destruct c as [ty sub z]. unfold fields_of_command, f_enum. cbn [c_type c_sub c_compressed].
    destruct (N.eqb_spec ty 0) as [->|Hty]; destruct sub as [|x l]; destruct z; reflexivity.
  - unfold fields_of_command. wf_fields.
Qed.
